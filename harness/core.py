"""Shared harness: environment pinning, traced device, model driver wrapper, name records,
implementation runner and model runner for op programs, canonicalisation of results."""
import hashlib
import io
import os
import subprocess
import sys
import time
import warnings

VERIF = os.path.dirname(os.path.dirname(os.path.abspath(__file__)))
REPO = os.environ.get("VERIF_REPO", "/repo")
if sys.path[0] != REPO:
    sys.path.insert(0, REPO)
os.environ.setdefault("TZ", "UTC")
time.tzset()

import errno as _errno  # noqa: E402
from unittest import mock  # noqa: E402

import fs.errors  # noqa: E402
import pyfatfs  # noqa: E402
from pyfatfs.PyFat import PyFat  # noqa: E402
from pyfatfs.PyFatFS import PyFatBytesIOFS  # noqa: E402
from pyfatfs.DosDateTime import DosDateTime  # noqa: E402
from pyfatfs.EightDotThree import EightDotThree  # noqa: E402
from pyfatfs._exceptions import PyFATException  # noqa: E402

PyFat.__del__ = lambda self: None      # bare objects built by the harness must not run close() at GC
assert os.path.realpath(pyfatfs.__file__).startswith(os.path.realpath(REPO)), pyfatfs.__file__

VMODEL = os.path.join(VERIF, "ocaml", "vmodel")
SCRATCH = os.environ.get("VERIF_SCRATCH", os.path.join(VERIF, "build", "scratch"))
os.makedirs(SCRATCH, exist_ok=True)


# ------------------------------------------------------------------------------------------
class TraceDevice(io.RawIOBase):
    """A device of fixed size holding a volume of `vol_len` bytes at `offset`, with guard bytes
    before and after.  Every access is recorded; accesses outside the volume and growth are flagged."""
    GUARD = 0xA7

    def __init__(self, image: bytes, offset=0, post_guard=4096, writable=True, record_reads=True):
        super().__init__()
        self.offset = offset
        self.vol_len = len(image)
        self.buf = bytearray(bytes([self.GUARD]) * offset + image + bytes([self.GUARD]) * post_guard)
        self.size0 = len(self.buf)
        self.pos = 0
        self._writable = writable
        self.writes = []          # (pos relative to volume, bytes)
        self.reads = []           # (pos relative to volume, requested len)
        self.outside = []         # accesses not within [offset, offset+vol_len)
        self.write_calls = 0
        self.truncates = []
        self.record_reads = record_reads
        self.final = None
        self.fail_after = None    # writes allowed before the device "dies" (crash tests)
        self.lock_events = None

    def readable(self): return True
    def seekable(self): return True
    def writable(self): return self._writable

    def seek(self, pos, whence=0):
        if whence == 0:
            self.pos = pos
        elif whence == 1:
            self.pos += pos
        else:
            self.pos = len(self.buf) + pos
        if self.pos < 0:
            raise OSError(_errno.EINVAL, "negative seek")
        return self.pos

    def tell(self): return self.pos

    def _chk(self, kind, pos, n):
        if n > 0 and (pos < self.offset or pos + n > self.offset + self.vol_len):
            self.outside.append((kind, pos - self.offset, n))

    def read(self, n=-1):
        if n is None or n < 0:
            n = max(0, len(self.buf) - self.pos)
        self._chk("read", self.pos, n)
        if self.record_reads:
            self.reads.append((self.pos - self.offset, n))
        data = bytes(self.buf[self.pos:self.pos + n])
        self.pos += len(data)
        return data

    def readinto(self, b):
        d = self.read(len(b))
        b[:len(d)] = d
        return len(d)

    def write(self, data):
        data = bytes(data)
        self.write_calls += 1
        if not self._writable:
            raise io.UnsupportedOperation("not writable")
        if self.fail_after is not None:
            if self.fail_after <= 0:
                raise OSError(_errno.EIO, "device stopped accepting writes")
            self.fail_after -= 1
        self._chk("write", self.pos, len(data))
        self.writes.append((self.pos - self.offset, data))
        end = self.pos + len(data)
        if end > len(self.buf):
            self.buf.extend(b"\0" * (end - len(self.buf)))
        self.buf[self.pos:end] = data
        self.pos = end
        return len(data)

    def truncate(self, size=None):
        size = self.pos if size is None else size
        if size == self.offset + self.vol_len:
            return size           # mkfs sizing the image to exactly the requested length: nothing outside is touched
        self.truncates.append(size)
        if size < len(self.buf):
            del self.buf[size:]
        else:
            self.buf.extend(b"\0" * (size - len(self.buf)))
        return size

    def close(self):
        if self.final is None:
            self.final = bytes(self.buf)
        super().close()

    # helpers
    def volume(self):
        b = self.final if self.final is not None else self.buf
        return bytes(b[self.offset:self.offset + self.vol_len])

    def guards_intact(self):
        b = self.final if self.final is not None else self.buf
        g = self.GUARD
        return (len(b) == self.size0 and all(x == g for x in b[:self.offset])
                and all(x == g for x in b[self.offset + self.vol_len:]))


# ------------------------------------------------------------------------------------------
def mkfs_image(fat_type, size, offset=0, auto_size=False, **kw):
    """Run the real PyFat.mkfs into memory (same patching trick as tests/test_PyFatFS.py).
    auto_size: mkfs is called WITHOUT a size and has to take it from the device, which then ends where the volume's room ends."""
    pf = PyFat(offset=offset)
    dev = TraceDevice(b"\0" * size, offset=offset, record_reads=False, post_guard=0 if auto_size else 4096)
    pf._PyFat__fp = dev
    with mock.patch("pyfatfs.PyFat.PyFat._PyFat__set_fp", mock.Mock()):
        with mock.patch("pyfatfs.PyFat.open"):
            pf.mkfs("/dev/null", fat_type=fat_type, size=None if auto_size else size, **kw)
    return dev, pf


# ------------------------------------------------------------------------------------------
class Model:
    """The extracted Coq model behind its line protocol.  When the model could not be built (translator failed closed,
    Coq or OCaml error) the check still runs the implementation against the direct oracles: the object is then a stub
    whose answers are None and every model comparison is skipped (the broken build is reported by the check driver)."""

    def __init__(self):
        self.stub = bool(os.environ.get("VERIF_NO_MODEL"))
        self.ncmds = 0
        if self.stub:
            self.p = None
            return
        # the extracted list functions are not tail recursive: a 640 KiB read needs more than the default 8 MiB stack
        def big_stack():
            import resource
            soft, hard = resource.getrlimit(resource.RLIMIT_STACK)
            try:
                resource.setrlimit(resource.RLIMIT_STACK, (hard, hard))
            except (ValueError, OSError):
                pass
        self.p = subprocess.Popen([VMODEL], stdin=subprocess.PIPE, stdout=subprocess.PIPE, text=True, bufsize=1, preexec_fn=big_stack)

    def cmd(self, line):
        if self.stub:
            return [], None
        self.p.stdin.write(line + "\n")
        self.p.stdin.flush()
        self.ncmds += 1
        ws = []
        while True:
            out = self.p.stdout.readline()
            if not out:
                raise RuntimeError("model died on: " + line[:200])
            out = out.rstrip("\n")
            if out.startswith("w "):
                _, off, ln, data = out.split(" ")
                ws.append((int(off), int(ln), data))
            elif out.startswith("ok") or out.startswith("err"):
                return ws, out
            else:
                raise RuntimeError("model protocol: " + out[:200])

    def close(self):
        if self.stub:
            return
        try:
            self.p.stdin.close()
            self.p.wait(timeout=5)
        except Exception:
            self.p.kill()

    def load_bytes(self, image: bytes, tag="img"):
        if self.stub:
            return
        path = os.path.join(SCRATCH, f"{tag}.{os.getpid()}.img")
        with open(path, "wb") as f:
            f.write(image)
        ws, r = self.cmd(f"load {path} -1")
        os.remove(path)
        assert r == "ok", r

    def dump(self, tag="dump"):
        path = os.path.join(SCRATCH, f"{tag}.{os.getpid()}.img")
        ws, r = self.cmd(f"dump {path}")
        assert r == "ok", r
        with open(path, "rb") as f:
            b = f.read()
        os.remove(path)
        return b


def wsig(data: bytes):
    """signature of a write payload as the driver prints it"""
    if len(data) <= 64:
        return data.hex() if data else "."
    return "md5:" + hashlib.md5(data).hexdigest()


# ------------------------------------------------------------------------------------------
def hx(b):
    return b.hex() if b else "."


def enc_name(name: str, encoding: str):
    """name record for the model: the Unicode-dependent facts, computed with the same str / codec
    functions the implementation calls"""
    u = name.encode("utf-16-le", "surrogatepass")

    def oem(s):
        try:
            return s.encode(encoding)
        except (UnicodeError, ValueError):
            return None
    up = name.upper()
    o, ou = oem(name), oem(up)
    base = os.path.splitext(up)[0].strip()[0:8].encode(encoding, errors="replace")
    ext = os.path.splitext(up)[1][1:].strip()[0:3].encode(encoding, errors="replace")
    try:
        conform = EightDotThree.is_8dot3_conform(name, encoding)
    except Exception:  # the model field is a bool; an escaping exception is reported by the tie anyway
        conform = False
    return ":".join([hx(u), "-" if o is None else hx(o), "-" if ou is None else hx(ou), hx(base), hx(ext), "1" if conform else "0"])


def enc_path(path: str, encoding: str):
    segs = [s for s in path.split("/") if s]
    if not segs:
        return "ROOT"
    return "/".join(enc_name(s, encoding) for s in segs)


def dec_shown(tok, encoding):
    if tok[0] == "L":
        return bytes.fromhex(tok[1:] if tok[1:] != "." else "").decode("utf-16-le", "surrogatepass")
    return bytes.fromhex(tok[1:] if tok[1:] != "." else "").decode(encoding, "replace")


MODES = {  # reading writing appending create exclusive truncate  (fs.mode.Mode semantics)
    "r": "100000", "r+": "110000", "w": "010101", "w+": "110101", "a": "011100", "a+": "111100",
    "x": "010111", "x+": "110111",
}


def classify_exc(e):
    m = [(fs.errors.ResourceNotFound, "RNF"), (fs.errors.DirectoryExpected, "DEXP"), (fs.errors.FileExpected, "FEXP"),
         (fs.errors.DirectoryExists, "DEXISTS"), (fs.errors.FileExists, "FEXISTS"), (fs.errors.DirectoryNotEmpty, "DNOTEMPTY"),
         (fs.errors.RemoveRootError, "RROOT"), (fs.errors.DestinationExists, "DESTEX")]
    for cls, nm in m:
        if isinstance(e, cls):
            return nm
    if isinstance(e, PyFATException):
        en = {_errno.ENOENT: "ENOENT", _errno.ENOTDIR: "ENOTDIR", _errno.ENOSPC: "ENOSPC", _errno.E2BIG: "E2BIG",
              _errno.EROFS: "EROFS", _errno.EINVAL: "EINVAL", _errno.ENAMETOOLONG: "ENAMETOOLONG", _errno.EEXIST: "EEXIST"}
        return en.get(e.errno, "EPYFAT")
    if isinstance(e, fs.errors.FSError):
        return "FSERR:" + type(e).__name__
    if isinstance(e, (io.UnsupportedOperation,)):
        return "IOERR"
    if isinstance(e, OSError):
        return "IOERR"
    if isinstance(e, ValueError) and not isinstance(e, UnicodeError):
        return "VALERR"
    return "INTERNAL:" + type(e).__name__


def clock_tuple(i, base=(2024, 1, 25, 10, 0, 0)):
    y, mo, d, h, mi, s = base
    t = h * 3600 + mi * 60 + s + 2 * i
    return (y, mo, d, (t // 3600) % 24, (t // 60) % 60, t % 60)


class ScriptedClock:
    """Replaces DosDateTime.now for the duration of a run; time is an input of both sides."""

    def __init__(self):
        self.t = clock_tuple(0)
        self._orig = None

    def __enter__(self):
        self._orig = DosDateTime.__dict__["now"]
        clock = self
        DosDateTime.now = staticmethod(lambda tz=None: DosDateTime(*clock.t))
        return self

    def __exit__(self, *a):
        DosDateTime.now = self._orig


# ------------------------------------------------------------------------------------------
class ImplRun:
    """Executes an op program on the real PyFatBytesIOFS over a TraceDevice."""

    def __init__(self, image, offset=0, encoding="ibm437", preserve_case=True, utc=False, lazy_load=True,
                 read_only=False, post_guard=4096):
        self.encoding = encoding
        self.dev = TraceDevice(image, offset=offset, writable=not read_only, post_guard=post_guard)
        self.handles = {}
        self.mount_warnings = []
        self.fs = None
        self.kw = dict(encoding=encoding, offset=offset, preserve_case=preserve_case, utc=utc, lazy_load=lazy_load)

    def mount(self):
        w0 = len(self.dev.writes)
        with warnings.catch_warnings(record=True) as ws:
            warnings.simplefilter("always")
            try:
                self.fs = PyFatBytesIOFS(self.dev, **self.kw)
                res = ("ok", None)
            except Exception as e:  # noqa
                res = ("err", classify_exc(e))
        self.mount_warnings = [str(w.message) for w in ws]
        return res, self.dev.writes[w0:]

    def dirty_warned(self):
        return any("not cleanly unmounted" in w for w in self.mount_warnings)

    def op(self, op):
        """returns (result, writes)"""
        w0 = len(self.dev.writes)
        if op[0] in HANDLE_OPS and op[1] not in self.handles:
            return ("skip", None), []          # the open of this handle failed earlier in the program
        with warnings.catch_warnings():
            warnings.simplefilter("ignore")
            try:
                res = ("ok", self._do(op))
            except Exception as e:  # noqa
                res = ("err", classify_exc(e))
        return res, self.dev.writes[w0:]

    def _raw(self, path):
        e = self.fs.fs.root_dir.get_entry(path)
        return [repr(e), e.is_directory(), e.filesize, e.crtdate, e.crttime, e.wrtdate, e.wrttime, e.lstaccessdate]

    def _do(self, op):
        k, f = op[0], self.fs
        if k == "exists": return f.exists(op[1])
        if k == "isdir": return f.isdir(op[1])
        if k == "isfile": return f.isfile(op[1])
        if k == "listdir": return list(f.listdir(op[1]))
        if k == "getsize": return f.getsize(op[1])
        if k == "getinfo":
            f.getinfo(op[1], namespaces=["details"])
            return self._raw(op[1])
        if k == "create": return bool(f.create(op[1], wipe=bool(op[2]) if len(op) > 2 else False))
        if k == "makedir":
            f.makedir(op[1], recreate=bool(op[2]) if len(op) > 2 else False)
            return None
        if k == "remove": return f.remove(op[1])
        if k == "removedir": return f.removedir(op[1])
        if k == "removetree": return f.removetree(op[1])
        if k == "setinfo":
            # op: path, created, modified, accessed as epoch seconds or None
            det = {}
            for key, v in zip(("created", "modified", "accessed"), op[2:5]):
                if v is not None:
                    det[key] = v
            f.setinfo(op[1], {"details": det})
            return None
        if k == "open":
            self.handles[op[1]] = f.openbin(op[2], op[3])
            return None
        h = self.handles.get(op[1]) if len(op) > 1 else None
        if k == "read": return bytes(h.read(op[2]))
        if k == "write": return h.write(bytes.fromhex(op[2]))
        if k == "seek": return h.seek(op[2], op[3] if len(op) > 3 else 0)
        if k == "tell": return h.tell()
        if k == "truncate": return h.truncate(op[2])
        if k == "hclose":
            h.close()
            return None
        if k == "closefs":
            f.close()
            return None
        # compound helpers of fs.base (only run on the implementation, judged by the reference FS)
        if k == "makedirs":
            f.makedirs(op[1], recreate=bool(op[2]) if len(op) > 2 else False)
            return None
        if k == "touch": return f.touch(op[1])
        if k == "writebytes": return f.writebytes(op[1], bytes.fromhex(op[2]))
        if k == "appendbytes": return f.appendbytes(op[1], bytes.fromhex(op[2]))
        if k == "readbytes": return bytes(f.readbytes(op[1]))
        if k == "copy": return f.copy(op[1], op[2], overwrite=bool(op[3]) if len(op) > 3 else False)
        if k == "move": return f.move(op[1], op[2], overwrite=bool(op[3]) if len(op) > 3 else False)
        if k == "copydir": return f.copydir(op[1], op[2], create=True)
        if k == "movedir": return f.movedir(op[1], op[2], create=True)
        raise ValueError("unknown op " + k)

    def walk(self):
        """full tree through the public interface: {path: ('d',) | ('f', size, bytes)}"""
        out = {}
        f = self.fs

        def go(p, depth):
            if depth > 40:
                raise RuntimeError("tree too deep")
            for n in f.listdir(p):
                q = (p.rstrip("/") + "/" + n)
                if f.isdir(q):
                    out[q] = ("d",)
                    go(q, depth + 1)
                else:
                    out[q] = ("f", f.getsize(q), bytes(f.readbytes(q)))
        with warnings.catch_warnings():
            warnings.simplefilter("ignore")
            go("/", 0)
        return out


# ------------------------------------------------------------------------------------------
class ModelRun:
    def __init__(self, image, encoding="ibm437", preserve_case=True, read_only=False, model=None):
        self.m = model or Model()
        self.own = model is None
        self.encoding = encoding
        self.m.load_bytes(image)
        self.ro, self.pc = read_only, preserve_case
        self.hid = {}
        self.info = None

    def mount(self):
        ws, r = self.m.cmd(f"mount {int(self.ro)} {int(self.pc)}")
        if r.startswith("ok"):
            self.info = dict(kv.split("=") for kv in r.split()[1:])
            return ("ok", None), ws
        return ("err", r.split()[1]), ws

    def op(self, op, now):
        k = op[0]
        E = self.encoding
        m = self.m
        m.cmd("now " + ".".join(str(x) for x in now))

        def P(p):
            return enc_path(p, E)

        def res(r, conv=None):
            if r.startswith("err"):
                return ("err", r.split()[1])
            rest = r[3:] if len(r) > 2 else ""
            return ("ok", conv(rest) if conv else None)
        if k == "exists":
            ws, r = m.cmd(f"exists {P(op[1])}")
            return res(r, lambda s: s == "1"), ws
        if k in ("isdir", "isfile"):
            ws, r = m.cmd(f"getinfo {P(op[1])}")
            if r.startswith("err"):
                e = r.split()[1]
                return (("ok", False) if e == "RNF" else ("err", e)), ws
            isd = r.split()[2] == "1"
            return ("ok", isd if k == "isdir" else not isd), ws
        if k == "listdir":
            ws, r = m.cmd(f"listdir {P(op[1])}")
            return res(r, lambda s: [dec_shown(t, E) for t in s.split("|")] if s else []), ws
        if k == "getsize":
            ws, r = m.cmd(f"getsize {P(op[1])}")
            return res(r, int), ws
        if k == "getinfo":
            ws, r = m.cmd(f"getinfo {P(op[1])}")

            def conv(s):
                t = s.split()
                nm = dec_shown(t[0], E)
                return [nm, t[1] == "1"] + [int(x) for x in t[2:]]
            return res(r, conv), ws
        if k == "create":
            ws, r = m.cmd(f"create {P(op[1])} {int(bool(op[2])) if len(op) > 2 else 0}")
            return res(r, lambda s: s == "1"), ws
        if k == "makedir":
            ws, r = m.cmd(f"makedir {P(op[1])} {int(bool(op[2])) if len(op) > 2 else 0}")
            return res(r), ws
        if k in ("remove", "removedir", "removetree"):
            ws, r = m.cmd(f"{k} {P(op[1])}")
            return res(r), ws
        if k == "setinfo":
            def tt(v):
                return "-" if v is None else ".".join(str(x) for x in v)
            ws, r = m.cmd(f"setinfo {P(op[1])} {tt(op[5])} {tt(op[6])} {tt(op[7])}")
            return res(r), ws
        if k == "open":
            hid = self.hid.setdefault(op[1], len(self.hid) + 1)
            ws, r = m.cmd(f"open {hid} {P(op[2])} {MODES[op[3]]}")
            return res(r), ws
        hid = self.hid.get(op[1], 0) if len(op) > 1 else 0
        if k == "read":
            ws, r = m.cmd(f"read {hid} {op[2]}")
            return res(r, lambda s: bytes.fromhex(s if s != "." else "")), ws
        if k == "write":
            ws, r = m.cmd(f"write {hid} {op[2] if op[2] else '.'}")
            return res(r, int), ws
        if k == "seek":
            ws, r = m.cmd(f"seek {hid} {op[2]} {op[3] if len(op) > 3 else 0}")
            return res(r, int), ws
        if k == "tell":
            ws, r = m.cmd(f"seek {hid} 0 1")
            return res(r, int), ws
        if k == "truncate":
            ws, r = m.cmd(f"truncate {hid} {'-' if op[2] is None else op[2]}")
            return res(r, int), ws
        if k == "hclose":
            ws, r = m.cmd(f"hclose {hid}")
            return res(r), ws
        if k == "closefs":
            ws, r = m.cmd("closefs")
            return res(r), ws
        raise ValueError("model has no op " + k)

    def close(self):
        if self.own:
            self.m.close()


HANDLE_OPS = {"read", "write", "seek", "tell", "truncate", "hclose"}
MODEL_OPS = {"exists", "isdir", "isfile", "listdir", "getsize", "getinfo", "create", "makedir", "remove", "removedir",
             "removetree", "setinfo", "open", "read", "write", "seek", "tell", "truncate", "hclose", "closefs"}


def canon(v):
    if isinstance(v, (bytes, bytearray)):
        return "hex:" + bytes(v).hex()
    if isinstance(v, (list, tuple)):
        return [canon(x) for x in v]
    return v


def compare_writes(iw, mw):
    """impl writes [(pos, bytes)] vs model writes [(off, len, sig)]; returns None or a description"""
    for i in range(max(len(iw), len(mw))):
        if i >= len(iw):
            return {"index": i, "impl": None, "model": list(mw[i])}
        if i >= len(mw):
            return {"index": i, "impl": [iw[i][0], len(iw[i][1]), wsig(iw[i][1])[:80]], "model": None}
        a = (iw[i][0], len(iw[i][1]), wsig(iw[i][1]))
        if a != tuple(mw[i]):
            return {"index": i, "impl": [a[0], a[1], a[2][:80]], "model": [mw[i][0], mw[i][1], mw[i][2][:80]]}
    return None
