"""Run under a given TZ (set in the environment by the caller): timestamps through setinfo/getinfo
and through stamping, for utc on/off.  Prints one JSON document."""
import json
import os
import sys
import time
import warnings

time.tzset()
sys.path.insert(0, os.environ.get("VERIF_REPO", "/repo"))
sys.path.insert(0, os.path.dirname(os.path.dirname(os.path.abspath(__file__))))
warnings.simplefilter("ignore")
from harness import core, fatspec  # noqa: E402
from pyfatfs.PyFatFS import PyFatBytesIOFS  # noqa: E402


def civil(tm):
    return [tm.tm_year, tm.tm_mon, tm.tm_mday, tm.tm_hour, tm.tm_min, tm.tm_sec]


def dec_date(w):
    return [(w >> 9) + 1980, (w >> 5) & 15, w & 31]


def dec_time(w):
    return [w >> 11, (w >> 5) & 63, (w & 31) * 2]


def main():
    spec = json.load(sys.stdin)
    out = {"tz": os.environ.get("TZ"), "results": []}
    img, info = fatspec.build(12, clusters=100, rootent=32)
    for utc in (False, True):
        dev = core.TraceDevice(img, record_reads=False)
        f = PyFatBytesIOFS(dev, utc=utc)
        f.create("/t.txt")
        conv = time.gmtime if utc else time.localtime
        for t in spec["instants"]:
            rec = {"utc": utc, "t": t}
            try:
                rec["year_here"] = conv(t).tm_year          # the year of the broken-down time that would be stored
            except (OverflowError, ValueError, OSError):
                rec["year_here"] = None
            try:
                before = f.getinfo("/t.txt", namespaces=["details"]).raw["details"]
                f.setinfo("/t.txt", {"details": {"created": t, "modified": t, "accessed": t}})
                rec["set"] = "ok"
            except Exception as e:  # noqa
                rec["set"] = core.classify_exc(e)
                try:
                    after = f.getinfo("/t.txt", namespaces=["details"]).raw["details"]
                    rec["unchanged"] = all(after[k] == before[k] for k in ("created", "modified", "accessed"))
                    # the same instant as a LATER field of a call whose earlier fields are fine: rejected as a whole, nothing taken over (C17-m7)
                    e0 = f.fs.root_dir.get_entry("/t.txt")
                    raw0 = (e0.crtdate, e0.crttime, e0.wrtdate, e0.wrttime, e0.lstaccessdate)
                    for mixed in ({"modified": 1500000000, "accessed": t}, {"created": 1500000000, "modified": t}, {"created": 1400000000, "modified": 1400000002, "accessed": t}):
                        try:
                            f.setinfo("/t.txt", {"details": mixed})
                            rec.setdefault("mixed_accepted", []).append(sorted(mixed))
                        except Exception:  # noqa
                            pass
                        e1 = f.fs.root_dir.get_entry("/t.txt")
                        now = f.getinfo("/t.txt", namespaces=["details"]).raw["details"]
                        if (e1.crtdate, e1.crttime, e1.wrtdate, e1.wrttime, e1.lstaccessdate) != raw0 or any(now[k] != before[k] for k in ("created", "modified", "accessed")):
                            if not rec.get("mixed_accepted"):
                                rec["mixed_changed"] = sorted(mixed)
                            break
                    f.setinfo("/t.txt", {"details": {"modified": 1600000000}})      # the entry must still be writable
                    rec["still_writable"] = True
                except Exception as e2:  # noqa
                    rec["still_writable"] = False
                    rec["after_error"] = f"{type(e2).__name__}: {e2}"
                out["results"].append(rec)
                continue
            d = f.getinfo("/t.txt", namespaces=["details"]).raw["details"]
            e = f.fs.root_dir.get_entry("/t.txt")
            rec.update(created=d["created"], modified=d["modified"], accessed=d["accessed"],
                       raw_crt=dec_date(e.crtdate) + dec_time(e.crttime), raw_wrt=dec_date(e.wrtdate) + dec_time(e.wrttime), raw_acc=dec_date(e.lstaccessdate),
                       want_fields=civil(conv(t)))
            # what the instant is at FAT resolution, and whether local time is ambiguous there (fold)
            if not utc:
                tm = time.localtime(t)
                back = time.mktime((tm.tm_year, tm.tm_mon, tm.tm_mday, tm.tm_hour, tm.tm_min, tm.tm_sec, 0, 0, -1))
                rec["fold"] = (abs(back - t) >= 1) or (time.localtime(t - 3600)[3:6] == tm[3:6]) or (time.localtime(t + 3600)[3:6] == tm[3:6])
                rec["want_day_start"] = time.mktime((tm.tm_year, tm.tm_mon, tm.tm_mday, 0, 0, 0, 0, 0, -1))
            else:
                tm = time.gmtime(t)
                rec["fold"] = False
                import calendar
                rec["want_day_start"] = calendar.timegm((tm.tm_year, tm.tm_mon, tm.tm_mday, 0, 0, 0))
            # created at MIDNIGHT of that day (a time word of 0 is a time, not "no time"), modified at another time of day (C17-m9: zero fields
            # "fall back" to the modification stamp)
            try:
                ds = rec["want_day_start"]
                if 1980 <= conv(ds).tm_year <= 2107 and abs(t - ds) > 7200:
                    acc = t + 3 * 86400 if conv(t + 3 * 86400).tm_year <= 2107 else t - 3 * 86400     # the access DATE on another day than the creation date
                    f.setinfo("/t.txt", {"details": {"created": ds, "modified": t, "accessed": acc}})
                    d2 = f.getinfo("/t.txt", namespaces=["details"]).raw["details"]
                    rec["mid_created"], rec["mid_want"], rec["mid_fields"] = d2["created"], ds, civil(conv(ds))
                    # ... and what the DEVICE holds in the three date fields (C17-m10: creation and access date transposed when the entry is serialised)
                    if len(out["results"]) % 8 == 0:
                        tt3 = fatspec.Volume(dev.volume()).tree("ibm437")[0].get("/t.txt")
                        if tt3 is not None:
                            tm3 = tt3[3:]
                            rec["dev_dates"] = [dec_date(tm3[0][0]), dec_date(tm3[1][0]), dec_date(tm3[2])]
                            rec["dev_want"] = [civil(conv(ds))[:3], civil(conv(t))[:3], civil(conv(acc))[:3]]
            except Exception as e3:  # noqa
                rec["mid_error"] = f"{type(e3).__name__}: {e3}"
            out["results"].append(rec)
        # stamping of new entries against the wall clock
        t0 = time.time()
        f.create("/new.txt")
        f.makedir("/newdir")
        t1 = time.time()
        for p in ("/new.txt", "/newdir"):
            d = f.getinfo(p, namespaces=["details"]).raw["details"]
            e = f.fs.root_dir.get_entry(p)
            out["results"].append({"utc": utc, "stamp": p, "t0": t0, "t1": t1, "created": d["created"], "modified": d["modified"],
                                   "raw_crt": dec_date(e.crtdate) + dec_time(e.crttime), "want_fields": civil(conv(int(t0)))})
        # "recorded": what the DEVICE holds for an entry that is stamped by an operation — a new file, and an existing file (set to 2001 first)
        # re-created with wipe=True (C17-m8: the new modification time stayed in memory)
        f.setinfo("/t.txt", {"details": {"modified": 1000000000, "accessed": 1000000000}})
        t0 = time.time()
        f.create("/stamped on the device.txt")
        f.create("/t.txt", wipe=True)            # last: nothing rewrites the directory afterwards
        t1 = time.time()
        tree, _ = fatspec.Volume(dev.volume()).tree("ibm437")
        for pth in ("/t.txt", "/stamped on the device.txt"):
            tt = tree.get(pth)
            if tt is None:
                out["results"].append({"utc": utc, "device_stamp": pth, "missing": True})
                continue
            times = tt[3:]
            out["results"].append({"utc": utc, "device_stamp": pth, "t0": t0, "t1": t1, "raw_wrt": dec_date(times[1][0]) + dec_time(times[1][1]),
                                   "want_lo": civil(conv(int(t0) - 2)), "want_hi": civil(conv(int(t1) + 1))})
        f.close()
    json.dump(out, sys.stdout)


main()
