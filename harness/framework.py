"""Check driver machinery: build (translate, coq, extraction, driver), verdict logic,
known findings, replay and evidence files."""
import collections
import glob
import hashlib
import json
import os
import random
import re
import shutil
import subprocess
import sys
import time

VERIF = os.path.dirname(os.path.dirname(os.path.abspath(__file__)))
COQ = os.path.join(VERIF, "coq")
REPO = os.environ.get("VERIF_REPO", "/repo")
ALLOWED_AXIOMS = set()      # the development is expected to be closed under the global context

FORBIDDEN = re.compile(r"\b(Admitted|admit|Axiom|Parameter|Conjecture|Admit Obligations|Unset Guard|bypass_check|type-in-type|"
                       r"Unset Positivity|Unset Universe)\b")


def sh(cmd, cwd=None, timeout=1800, env=None):
    p = subprocess.run(cmd, shell=True, cwd=cwd, stdout=subprocess.PIPE, stderr=subprocess.STDOUT, text=True, timeout=timeout, env=env)
    return p.returncode, p.stdout


def coq_sources():
    out = []
    for d in ("Base", "Gen", "Model", "Spec", "Proofs", "Properties", "Extract"):
        out += sorted(glob.glob(os.path.join(COQ, d, "*.v")))
    return [os.path.relpath(p, COQ) for p in out]


def ensure_makefile():
    srcs = coq_sources()
    proj = "-Q . PyFatV\n" + "\n".join(srcs) + "\n"
    pj = os.path.join(COQ, "_CoqProject")
    old = open(pj).read() if os.path.exists(pj) else ""
    if old != proj or not os.path.exists(os.path.join(COQ, "Makefile")):
        with open(pj, "w") as f:
            f.write(proj)
        rc, out = sh("coq_makefile -f _CoqProject -o Makefile", cwd=COQ)
        if rc != 0:
            raise RuntimeError("coq_makefile failed: " + out)


class Build:
    """result of the proof side for one property"""

    def __init__(self):
        self.translator_ok = True
        self.translator_msg = ""
        self.proof_ok = True
        self.proof_msg = ""
        self.broken_item = None
        self.assumptions = []
        self.closed = 0
        self.obligations = 0
        self.theorems = []
        self.model_ok = True
        self.model_msg = ""
        self.forbidden = []
        self.wall = 0.0


def translate():
    rc, out = sh(f"/venv/bin/python {VERIF}/tools/translate.py {REPO} {COQ}/Gen/Pure.v")
    return rc == 0, out.strip()


def build_model(b: Build):
    """Gen + Model + extraction + OCaml driver (what the correspondence needs)"""
    ok, msg = translate()
    b.translator_ok, b.translator_msg = ok, msg
    if not ok:
        b.model_ok, b.model_msg = False, "translator failed closed: " + msg
        return
    ensure_makefile()
    rc, out = sh("timeout 900 make -j8 Extract/Extract.vo 2>&1 | tail -40", cwd=COQ)
    ext = os.path.join(COQ, "Extracted.ml")
    if not os.path.exists(os.path.join(COQ, "Extract", "Extract.vo")) or "Error" in out:
        b.model_ok, b.model_msg = False, "model does not compile: " + out[-1500:]
        return
    oc = os.path.join(VERIF, "ocaml")
    changed = False
    if os.path.exists(ext):
        for suf in ("ml", "mli"):
            src = os.path.join(COQ, "Extracted." + suf)
            dst = os.path.join(oc, "Extracted." + suf)
            new = open(src).read()
            if not os.path.exists(dst) or open(dst).read() != new:
                shutil.copy(src, dst)
                changed = True
            os.remove(src)
    vm = os.path.join(oc, "vmodel")
    if changed or not os.path.exists(vm) or os.path.getmtime(vm) < os.path.getmtime(os.path.join(oc, "driver.ml")) \
            or not os.path.exists(os.path.join(oc, "Extracted.ml")):
        if not os.path.exists(os.path.join(oc, "Extracted.ml")):
            # Extract.vo was up to date so coqc did not run: force it
            sh("rm -f Extract/Extract.vo && timeout 600 make Extract/Extract.vo", cwd=COQ)
            for suf in ("ml", "mli"):
                shutil.move(os.path.join(COQ, "Extracted." + suf), os.path.join(oc, "Extracted." + suf))
        rc, out = sh("timeout 300 ocamlfind ocamlopt -O3 -w -a Extracted.mli Extracted.ml driver.ml -o vmodel", cwd=oc)
        if rc != 0:
            b.model_ok, b.model_msg = False, "driver build failed: " + out[-1500:]


def build_proofs(b: Build, pid: str):
    t0 = time.time()
    prop = f"Properties/{pid}.v"
    if not os.path.exists(os.path.join(COQ, prop)):
        b.proof_ok, b.proof_msg = False, f"{prop} missing"
        return
    # forbidden constructs anywhere in the development
    for p in coq_sources():
        txt = open(os.path.join(COQ, p)).read()
        txt = re.sub(r"\(\*.*?\*\)", "", txt, flags=re.S)
        for m in FORBIDDEN.finditer(txt):
            b.forbidden.append(f"{p}: {m.group(0)}")
    if b.forbidden:
        b.proof_ok, b.proof_msg = False, "forbidden constructs: " + "; ".join(b.forbidden[:5])
        return
    if not b.translator_ok:
        b.proof_ok, b.proof_msg, b.broken_item = False, b.translator_msg, "Gen (translator failed closed)"
        return
    ensure_makefile()
    rc, out = sh(f"timeout 1500 make -j8 {prop[:-2]}.vo 2>&1 | tail -60", cwd=COQ)
    if not os.path.exists(os.path.join(COQ, prop[:-2] + ".vo")) or re.search(r"^Error|\bError:", out, flags=re.M):
        b.proof_ok = False
        m = re.search(r'File "\./([^"]+)", line (\d+)', out)
        b.broken_item = f"{m.group(1)} line {m.group(2)}" if m else prop
        b.proof_msg = out[-1800:]
        return
    # Print Assumptions output: recompile the property file alone (its dependencies are built)
    rc, out = sh(f"timeout 900 coqc -Q . PyFatV {prop}", cwd=COQ)
    if rc != 0:
        b.proof_ok, b.proof_msg, b.broken_item = False, out[-1500:], prop
        return
    b.closed = out.count("Closed under the global context")
    axioms = []
    for blk in re.findall(r"Axioms:\n((?:.+\n?)+?)(?:\n|$)", out):
        for ln in blk.splitlines():
            m = re.match(r"^(\S+)\s*:", ln)
            if m:
                axioms.append(m.group(1))
    b.assumptions = sorted(set(axioms))
    bad = [a for a in b.assumptions if a not in ALLOWED_AXIOMS]
    if bad:
        b.proof_ok, b.proof_msg, b.broken_item = False, "axioms outside the allow-list: " + ", ".join(bad), prop
    src = open(os.path.join(COQ, prop)).read()
    b.theorems = re.findall(r"^(?:Theorem|Example|Corollary)\s+(\w+)", src, flags=re.M)
    # obligations: Qed-closed statements in the dependency cone
    rc, dep = sh(f"coqdep -Q . PyFatV -sort {prop}", cwd=COQ)
    files = [x for x in dep.split() if x.endswith(".v")]
    n = 0
    for fpath in files:
        if fpath.startswith(("Proofs/", "Properties/", "./Proofs/", "./Properties/", "Base/", "./Base/")):
            n += len(re.findall(r"\bQed\.", open(os.path.join(COQ, fpath)).read()))
    b.obligations = n
    b.wall = time.time() - t0


# ------------------------------------------------------------------------------------------
class Ctx:
    def __init__(self, pid, tier, seed):
        self.pid, self.tier, self.seed = pid, tier, seed
        self.rng = random.Random(seed * 1000003 + int(hashlib.md5(pid.encode()).hexdigest()[:6], 16))
        self.evaluations = 0
        self.nontrivial = set()
        self.samples = []
        self.violations = []      # dict(what, signature, replay)
        self.tie_breaks = []      # dict(what, detail)
        self.dist = collections.Counter()
        self.traces = 0
        self.notes = []
        self.t0 = time.time()
        self.exhaustive = False
        self.budget_s = {"quick": 150, "thorough": 1500}[tier]
        self.extra = {}

    def scale(self, quick, thorough):
        return quick if self.tier == "quick" else thorough

    def time_left(self):
        return self.budget_s - (time.time() - self.t0)

    def sample(self, x, cap=4):
        if len(self.samples) < cap:
            self.samples.append(x)

    def violation(self, what, signature, replay):
        self.violations.append(dict(what=what, signature=signature, replay=replay))

    def tie_break(self, what, detail):
        if len(self.tie_breaks) < 50:
            self.tie_breaks.append(dict(what=what, detail=detail))


def load_known():
    p = os.path.join(VERIF, "known_findings.json")
    return json.load(open(p)) if os.path.exists(p) else []


def write_replay(pid, body):
    d = os.path.join(VERIF, "replays", pid)
    os.makedirs(d, exist_ok=True)
    n = len(glob.glob(os.path.join(d, "*.json")))
    path = os.path.join(d, f"{n:04d}.json")
    with open(path, "w") as f:
        json.dump(body, f, indent=1, default=lambda o: o.hex() if isinstance(o, (bytes, bytearray)) else str(o))
    return os.path.relpath(path, VERIF)


def finish(ctx: Ctx, b: Build, level_note, trusted, rule, checker_cmd):
    """verdict, evidence, exit code"""
    known = [k for k in load_known() if k.get("property") == ctx.pid and k.get("status") == "known"]
    printed = set()
    unknown = []
    for v in ctx.violations:
        hit = None
        for k in known:
            if k.get("signature") and re.search(k["signature"], v["signature"]):
                hit = k
                break
        if hit:
            if hit["id"] not in printed:
                print(f"KNOWN-FINDING: property={ctx.pid} {hit['id']} {hit['what']}")
                printed.add(hit["id"])
        else:
            unknown.append(v)
    rc = 0
    lines = []
    if unknown:
        v = unknown[0]
        body = dict(property=ctx.pid, verdict="impl-violates-property", what=v["what"], signature=v["signature"], seed=ctx.seed,
                    tier=ctx.tier, replay=v["replay"], other_violations=[u["what"] for u in unknown[1:6]])
        path = write_replay(ctx.pid, body)
        lines.append(f"VIOLATION property={ctx.pid} replay={path}")
        rc = 1
    elif not b.proof_ok or not b.model_ok or ctx.tie_breaks:
        broken = []
        if not b.model_ok:
            broken.append(dict(kind="model-build", detail=b.model_msg[-1200:]))
        if not b.proof_ok:
            broken.append(dict(kind="proof", item=b.broken_item, detail=b.proof_msg[-1200:]))
        for t in ctx.tie_breaks[:5]:
            broken.append(dict(kind="correspondence", what=t["what"], detail=t["detail"]))
        body = dict(property=ctx.pid, verdict="proof-or-tie-broken", broken=broken, seed=ctx.seed, tier=ctx.tier,
                    note="the direct property oracle found no failing input on everything generated, including the extra search")
        path = write_replay(ctx.pid, body)
        lines.append(f"VIOLATION property={ctx.pid} replay={path} no-failing-input-found")
        rc = 1
    ev = {
        "property_id": ctx.pid, "tier": ctx.tier, "seed": ctx.seed, "level": "proof",
        "coverage": {
            "obligations": b.obligations, "discharged": b.obligations if b.proof_ok else 0,
            "checker_cmd": checker_cmd,
            "trusted_base": trusted + [f"Print Assumptions: {b.closed} statements 'Closed under the global context'"
                                       + (", axioms: " + ", ".join(b.assumptions) if b.assumptions else ", no axioms")],
            "theorems": b.theorems,
            "evaluations": ctx.evaluations, "distinct_nontrivial": len(ctx.nontrivial), "rule": rule,
            "samples": ctx.samples[:4], "traces_validated_against_impl": ctx.traces,
            "distribution": dict(ctx.dist.most_common(40)), "exhaustive": ctx.exhaustive,
            "known_findings_printed": sorted(printed), "tie_breaks": len(ctx.tie_breaks),
            "proof_wall_s": round(b.wall, 1), **ctx.extra,
        },
        "assumptions": [level_note] + ctx.notes,
        "wall_s": round(time.time() - ctx.t0, 1),
        "violations": len(unknown),
    }
    os.makedirs(os.path.join(VERIF, "evidence"), exist_ok=True)
    with open(os.path.join(VERIF, "evidence", f"{ctx.pid}.json"), "w") as f:
        json.dump(ev, f, indent=1, default=str)
    for ln in lines:
        print(ln)
    print(f"[{ctx.pid}] tier={ctx.tier} seed={ctx.seed} proofs={'ok' if b.proof_ok else 'BROKEN'} model={'ok' if b.model_ok else 'BROKEN'} "
          f"evaluations={ctx.evaluations} nontrivial={len(ctx.nontrivial)} tie_breaks={len(ctx.tie_breaks)} "
          f"violations={len(unknown)} known={len(printed)} wall={ev['wall_s']}s")
    return rc
