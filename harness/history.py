"""History-level cases: one volume + one op program, executed on the implementation (and the
model, for the tie), judged by a selectable set of direct oracles."""
import warnings

from . import core, fatspec, tie
from .core import ImplRun, TraceDevice
from pyfatfs.PyFatFS import PyFatBytesIOFS


def remount_walk(image, offset, encoding, lazy, read_only=True, force_ft=None):
    dev = TraceDevice(image, offset=0, writable=not read_only, record_reads=False)
    with warnings.catch_warnings():
        warnings.simplefilter("ignore")
        f = PyFatBytesIOFS(dev, encoding=encoding, lazy_load=lazy)
        r = ImplRun.__new__(ImplRun)
        r.fs = f
        w = ImplRun.walk(r)
        info = {}
        for p in w:
            e = f.fs.root_dir.get_entry(p)
            info[p] = (e.crtdate, e.crttime, e.wrtdate, e.wrttime, e.lstaccessdate)
        try:
            dev.final = bytes(dev.buf)   # do not let close() write (read-only anyway)
        except Exception:
            pass
    return w, info


def live_walk(ir):
    w = ir.walk()
    info = {}
    for p in w:
        e = ir.fs.fs.root_dir.get_entry(p)
        info[p] = (e.crtdate, e.crttime, e.wrtdate, e.wrttime, e.lstaccessdate)
    return w, info


def diff_trees(a, b, la="live", lb="remount"):
    out = []
    for p in sorted(set(a) | set(b)):
        if p not in a:
            out.append(f"{p!r} only in {lb}")
        elif p not in b:
            out.append(f"{p!r} only in {la}")
        elif a[p][0] != b[p][0]:
            out.append(f"{p!r}: kind {a[p][0]} vs {b[p][0]}")
        elif a[p][0] == "f" and a[p][1] != b[p][1]:
            out.append(f"{p!r}: size {a[p][1]} vs {b[p][1]}")
        elif a[p][0] == "f" and a[p][2] != b[p][2]:
            k = next((i for i in range(min(len(a[p][2]), len(b[p][2]))) if a[p][2][i] != b[p][2][i]), -1)
            out.append(f"{p!r}: contents differ at byte {k}")
    return out


class Case:
    def __init__(self, label, image, ops, mount=None, meta=None):
        self.label, self.image, self.ops, self.mount, self.meta = label, image, ops, dict(mount or {}), meta or {}

    def replay(self):
        return dict(volume=self.meta, volume_label=self.label, mount=self.mount, ops=self.ops)


def run_case(ctx, case: Case, oracles=(), model=None, use_model=True, remount_every=False):
    """returns the tie result dict; violations and tie breaks are reported into ctx"""
    enc = case.mount.get("encoding", "ibm437")
    off = case.mount.get("offset", 0)
    handles_open = set()
    state = {"last_quiescent_tree": None}

    def on_step(i, op, ires, ir):
        k = op[0]
        if k == "open" and ires[0] == "ok":
            handles_open.add(op[1])
        if k == "hclose":
            handles_open.discard(op[1])
        ctx.dist[k] += 1
        if ires[0] == "err":
            ctx.dist["err:" + str(ires[1])] += 1
            if str(ires[1]).startswith("INTERNAL") and "internal" in oracles:
                ctx.violation(f"{case.label}: op {i} {op[:3]} raised {ires[1]}", f"internal-exception:{ires[1]}:{k}", dict(case.replay(), at=i))
        if remount_every and "remount" in oracles and not handles_open and k not in ("closefs",) and k in MUTATING:
            check_remount(ctx, case, ir, i, enc)
        # the program closes the filesystem itself with its next op: what pyfatfs reports is taken now, for the comparison with the
        # independent reader of the closed image
        if i + 1 < len(case.ops) and case.ops[i + 1][0] == "closefs" and not handles_open and ir.fs is not None and k != "closefs":
            try:
                state["final_live"] = live_walk(ir)
            except Exception as e:  # noqa
                if "interop" in oracles or "remount" in oracles or "internal" in oracles:
                    ctx.violation(f"{case.label}: walking the live tree raised {type(e).__name__}: {e}", f"live-walk-raises:{type(e).__name__}", case.replay())

    if use_model:
        r = tie.run_program(case.image, case.ops, mount=case.mount, model=model, on_step=on_step)
        ctx.traces += 1
        if r["disagreement"]:
            ctx.tie_break(f"{case.label}: model and implementation disagree at {r['disagreement'].get('at')}",
                          dict(disagreement=r["disagreement"], case=case.replay()))
    else:
        r = run_impl_only(case, on_step)
    ir = r["impl"]
    r["final_live"] = state.get("final_live")
    ctx.evaluations += 1
    closed = any(s["op"][0] == "closefs" and s["impl"][0] == "ok" for s in r["steps"])
    if "remount" in oracles and not closed and ir.fs is not None and not handles_open and r["steps"][0]["impl"][0] == "ok":
        check_remount(ctx, case, ir, len(case.ops), enc)
    final_live = state.get("final_live")
    if ("interop" in oracles or "fsck" in oracles) and ir.fs is not None and not closed and r["steps"][0]["impl"][0] == "ok":
        try:
            final_live = live_walk(ir)
        except Exception as e:  # noqa
            if "internal" in oracles or "interop" in oracles:
                ctx.violation(f"{case.label}: walking the live tree raised {type(e).__name__}: {e}", f"live-walk-raises:{type(e).__name__}", case.replay())
        with warnings.catch_warnings():
            warnings.simplefilter("ignore")
            try:
                ir.fs.close()
                closed = True
            except Exception as e:  # noqa
                ctx.violation(f"{case.label}: close() raised {type(e).__name__}: {e}", "close-raises", case.replay())
    img = ir.dev.volume()
    # "... or after close()": the closed image, mounted afresh, shows the tree the live object reported before closing (programs that close the
    # filesystem themselves; C03-m7)
    if "remount" in oracles and closed and state.get("final_live") is not None:
        lw, linfo = state["final_live"]
        for lazy in (True, False):
            try:
                rw, rinfo = remount_walk(img, 0, enc, lazy)
            except Exception as e:  # noqa
                ctx.violation(f"{case.label}: remount ({'lazy' if lazy else 'eager'}) of the closed image raised {type(e).__name__}: {e}",
                              f"remount-raises:{type(e).__name__}", dict(case.replay(), at="closed"))
                break
            d = diff_trees(lw, rw)
            if d:
                ctx.violation(f"{case.label}: the closed image, mounted again, differs from the last live tree: {d[0]}",
                              "remount-differs:" + ("only-live" if "only in live" in d[0] else "only-remount" if "only in remount" in d[0] else "content"),
                              dict(case.replay(), at="closed", diffs=d[:10]))
                break
            bad = [p for p in lw if linfo[p] != rinfo.get(p)]
            if bad:
                ctx.violation(f"{case.label}: closed image: timestamps of {bad[0]!r} live {linfo[bad[0]]} vs remount {rinfo.get(bad[0])}", "remount-times",
                              dict(case.replay(), at="closed"))
                break
    if "io_bounds" in oracles:
        d = ir.dev
        if d.outside:
            k, pos, n = d.outside[0]
            ctx.violation(f"{case.label}: device {k} of {n} bytes at volume offset {pos} lies outside the volume of {d.vol_len} bytes",
                          f"io-outside:{k}", dict(case.replay(), access=[k, pos, n]))
        elif not d.guards_intact() or d.truncates:
            ctx.violation(f"{case.label}: guard bytes modified or device resized", "guard-modified", case.replay())
    if "fsck" in oracles and closed:
        fnd = fatspec_fsck(img, case.image, enc, case.meta)
        if fnd:
            ctx.violation(f"{case.label}: closed image fails the specification check: {fnd[0]}" + (f" (+{len(fnd) - 1} more)" if len(fnd) > 1 else ""),
                          "fsck:" + classify_finding(fnd[0]), dict(case.replay(), findings=fnd[:10]))
    if "interop" in oracles and closed and final_live is not None:
        try:
            v = make_volume(img, case.meta)
            tree, order = v.tree(enc)
        except Exception as e:  # noqa
            ctx.violation(f"{case.label}: independent reader cannot decode the closed image: {e}", "interop-unreadable", case.replay())
        else:
            lw, linfo = final_live
            d = diff_trees(lw, {p: t[:3] if t[0] == "f" else ("d",) for p, t in tree.items()}, "pyfatfs", "independent reader")
            if d:
                ctx.violation(f"{case.label}: independent reader sees a different tree: {d[0]}", "interop-tree", dict(case.replay(), diffs=d[:10]))
            else:
                for p, t in tree.items():
                    times = t[3:] if t[0] == "f" else t[1:]
                    want = linfo.get(p)
                    got = (times[0][0], times[0][1], times[1][0], times[1][1], times[2])
                    if want is not None and want != got:
                        ctx.violation(f"{case.label}: timestamps of {p!r} on disk {got} differ from reported {want}", "interop-times", case.replay())
                        break
    return r


MUTATING = {"create", "makedir", "remove", "removedir", "removetree", "setinfo", "hclose", "write", "truncate", "writebytes", "touch",
            "makedirs", "copy", "move", "appendbytes", "copydir", "movedir"}


def force_ft(meta):
    return 32 if meta.get("source") == "build" and meta.get("ft") == 32 and meta.get("clusters", 1 << 30) < 65525 else None


def make_volume(img, meta):
    return fatspec.Volume(img, force_ft=force_ft(meta))


_BASE = {}


def fatspec_fsck(img, ref, enc, meta):
    """findings of the image that the initial (possibly foreign, deliberately odd) image did not already have"""
    key = (hash(ref), enc)
    if key not in _BASE:
        if len(_BASE) > 64:
            _BASE.clear()
        _BASE[key] = set(fatspec.fsck(ref, None, enc, force_ft=force_ft(meta)))
    return [x for x in fatspec.fsck(img, ref, enc, force_ft=force_ft(meta)) if x not in _BASE[key]]


def classify_finding(s):
    for key, tag in (("belongs to no chain", "lost-cluster"), ("also belongs to", "cross-link"), ("FAT copy", "fat-copies"),
                     ("chain has", "chain-length"), ("free cluster in chain", "dangling-chain"), ("out of range", "out-of-range"),
                     ("cycle", "cycle"), ("after the end-of-directory", "after-end-mark"), ("long-name", "lfn"), ("long name", "lfn"),
                     ("short name", "sfn"), ("'.'", "dots"), ("'..'", "dots"), ("boot sector", "bootsector"), ("FAT[", "reserved-entries"),
                     ("beyond the last cluster", "beyond-last-cluster"), ("bad-cluster", "bad-mark"), ("FstClusHI", "clushi"),
                     ("orphaned", "lfn-orphan"), ("backup", "backup")):
        if key in s:
            return tag
    return "other"


def check_remount(ctx, case, ir, at, enc):
    try:
        lw, linfo = live_walk(ir)
    except Exception as e:  # noqa
        ctx.violation(f"{case.label}: walking the live tree after op {at} raised {type(e).__name__}: {e}", f"live-walk-raises:{type(e).__name__}",
                      dict(case.replay(), at=at))
        return
    snap = ir.dev.volume()
    for lazy in (True, False):
        try:
            rw, rinfo = remount_walk(snap, 0, enc, lazy)
        except Exception as e:  # noqa
            ctx.violation(f"{case.label}: remount ({'lazy' if lazy else 'eager'}) of the snapshot after op {at} raised {type(e).__name__}: {e}",
                          f"remount-raises:{type(e).__name__}", dict(case.replay(), at=at))
            return
        d = diff_trees(lw, rw)
        if d:
            ctx.violation(f"{case.label}: after op {at} ({case.ops[at - 1][:2] if 0 < at <= len(case.ops) else 'end'}) the remounted snapshot differs: {d[0]}",
                          "remount-differs:" + ("only-live" if "only in live" in d[0] else "only-remount" if "only in remount" in d[0] else "content"),
                          dict(case.replay(), at=at, diffs=d[:10]))
            return
        for p in lw:
            if linfo[p] != rinfo.get(p):
                ctx.violation(f"{case.label}: after op {at} timestamps of {p!r} live {linfo[p]} vs remount {rinfo.get(p)}", "remount-times",
                              dict(case.replay(), at=at))
                return


def run_impl_only(case, on_step):
    from .core import ScriptedClock, clock_tuple, canon
    m = case.mount
    ir = ImplRun(case.image, offset=m.get("offset", 0), encoding=m.get("encoding", "ibm437"), preserve_case=m.get("preserve_case", True),
                 utc=m.get("utc", False), lazy_load=m.get("lazy_load", True), read_only=m.get("read_only", False))
    out = {"steps": [], "disagreement": None, "impl": ir}
    with ScriptedClock() as clk:
        res, w = ir.mount()
        out["steps"].append({"op": ["mount"], "impl": list(res), "nwrites": len(w)})
        if res[0] != "ok":
            return out
        for i, op in enumerate(case.ops):
            clk.t = clock_tuple(i + 1)
            res, w = ir.op(op)
            out["steps"].append({"op": op, "impl": canon(list(res)), "nwrites": len(w)})
            if res[0] == "skip":
                continue
            if on_step:
                on_step(i, op, res, ir)
    return out
