"""Independent FAT12/16/32 + VFAT reader, checker and formatter, written from Microsoft's
FAT specification (fatgen103), not from pyfatfs.  Used as the direct property oracle on images
the real code produced (search for a concrete failing input), and to build foreign volumes."""
import struct


class SpecError(Exception):
    pass


def lfn_checksum(name11):
    s = 0
    for c in name11:
        s = (((s & 1) << 7) + (s >> 1) + c) & 0xFF
    return s


class Volume:
    def __init__(self, img: bytes, force_ft=None):
        self.img = img
        if len(img) < 512:
            raise SpecError("image shorter than a sector")
        b = img
        self.bps, self.spc, self.rsvd, self.nfats, self.rootent, tot16, self.media, fatsz16 = struct.unpack_from("<HBHBHHBH", b, 11)
        self.tot32 = struct.unpack_from("<L", b, 32)[0]
        self.fatsz32 = struct.unpack_from("<L", b, 36)[0]
        if self.bps not in (512, 1024, 2048, 4096) or self.spc not in (1, 2, 4, 8, 16, 32, 64, 128):
            raise SpecError("bad sector / cluster size")
        if self.rsvd == 0 or self.nfats == 0:
            raise SpecError("bad reserved / FAT count")
        self.totsec = tot16 if tot16 != 0 else self.tot32
        self.fatsz = fatsz16 if fatsz16 != 0 else self.fatsz32
        self.rds = (self.rootent * 32 + self.bps - 1) // self.bps
        self.fds = self.rsvd + self.nfats * self.fatsz + self.rds
        self.datasec = self.totsec - self.fds
        self.count = self.datasec // self.spc
        self.ft = 12 if self.count < 4085 else (16 if self.count < 65525 else 32)
        if force_ft:
            self.ft = force_ft      # deliberately non-conforming tiny FAT32 test volumes (typed by BPB_FATSz16 == 0)
        self.maxc = self.count + 1
        self.bpc = self.bps * self.spc
        self.rootclus = struct.unpack_from("<L", b, 44)[0] if self.ft == 32 else 0
        self.eoc_min = {12: 0xFF8, 16: 0xFFF8, 32: 0x0FFFFFF8}[self.ft]
        self.bad = {12: 0xFF7, 16: 0xFFF7, 32: 0x0FFFFFF7}[self.ft]
        if self.totsec * self.bps > len(img):
            raise SpecError("volume larger than the device")

    # --- FAT access per specification formulae, copy k
    def fat_entry(self, n, k=0):
        base = (self.rsvd + k * self.fatsz) * self.bps
        if self.ft == 12:
            off = base + n + n // 2
            w = self.img[off] | (self.img[off + 1] << 8)
            return (w >> 4) if n & 1 else (w & 0x0FFF)
        if self.ft == 16:
            return struct.unpack_from("<H", self.img, base + 2 * n)[0]
        return struct.unpack_from("<L", self.img, base + 4 * n)[0] & 0x0FFFFFFF

    def fat_raw32(self, n, k=0):
        return struct.unpack_from("<L", self.img, (self.rsvd + k * self.fatsz) * self.bps + 4 * n)[0]

    def fat_capacity(self):
        return self.fatsz * self.bps * 8 // self.ft

    def caddr(self, c):
        return ((c - 2) * self.spc + self.fds) * self.bps

    def chain(self, c):
        out, seen = [], set()
        while True:
            if not (2 <= c <= self.maxc):
                raise SpecError(f"cluster {c} out of range 2..{self.maxc}")
            if c in seen:
                raise SpecError(f"cycle at cluster {c}")
            seen.add(c)
            out.append(c)
            v = self.fat_entry(c)
            if v >= self.eoc_min:
                return out
            if v == self.bad:
                raise SpecError(f"bad cluster mark in chain at {c}")
            if v == 0:
                raise SpecError(f"free cluster in chain at {c}")
            c = v

    def cluster(self, c):
        a = self.caddr(c)
        return self.img[a:a + self.bpc]

    # --- directories
    def dir_bytes(self, loc):
        """loc None = fixed root; else first cluster"""
        if loc is None:
            a = (self.rsvd + self.nfats * self.fatsz) * self.bps
            return self.img[a:a + self.rootent * 32]
        return b"".join(self.cluster(c) for c in self.chain(loc))

    def root_loc(self):
        return self.rootclus if self.ft == 32 else None

    def read_dir(self, loc, encoding="ibm437", strict=False, findings=None, where="/"):
        """returns list of entries dict(name, short, attr, cluster, size, times, raw, nslots) in slot order.
        Long-name sets are validated per the VFAT rules; an invalid or orphaned set is ignored
        (and reported in `findings` when given)."""
        data = self.dir_bytes(loc)
        ents = []
        pend = []   # (ord, chk, units bytes, raw)
        ended = False

        def note(msg):
            if findings is not None:
                findings.append(f"{where}: {msg}")
        for i in range(0, len(data) - 31, 32):
            s = data[i:i + 32]
            if ended:
                if s[0] not in (0x00, 0xE5):
                    note(f"slot {i // 32} after the end-of-directory mark is in use (0x{s[0]:02x})")
                continue
            if s[0] == 0x00:
                ended = True
                if pend:
                    note("orphaned long-name slots before the end mark")
                pend = []
                continue
            if s[0] == 0xE5:
                if pend:
                    note(f"orphaned long-name slots before deleted slot {i // 32}")
                pend = []
                continue
            attr = s[11]
            if (attr & 0x3F) == 0x0F:
                pend.append(s)
                continue
            name11 = bytes(s[0:11])
            long = None
            if pend:
                long = self._lfn(pend, name11, note)
                pend = []
            if attr & 0x08:        # volume label
                continue
            (ntres, tenth, crttime, crtdate, accdate, hi, wrttime, wrtdate, lo, size) = struct.unpack_from("<BBHHHHHHHL", s, 12)
            n = bytearray(name11)
            if n[0] == 0x05:
                n[0] = 0xE5
            base = bytes(n[0:8]).rstrip(b" ")
            ext = bytes(n[8:11]).rstrip(b" ")
            short = base.decode(encoding, "replace") + ("." + ext.decode(encoding, "replace") if ext else "")
            ents.append(dict(name=long if long is not None else short, short=short, long=long, attr=attr, name11=name11,
                             cluster=(hi << 16) | lo if self.ft == 32 else lo, hi=hi, size=size,
                             crt=(crtdate, crttime), wrt=(wrtdate, wrttime), acc=accdate, slot=i // 32))
        if pend:
            note("orphaned long-name slots at the end of the directory")
        return ents

    @staticmethod
    def _lfn(slots, name11, note):
        """slots in disk order: must be n|0x40, n-1, ..., 1"""
        n = len(slots)
        chk = lfn_checksum(name11)
        units = b""
        for k, s in enumerate(slots):
            want = (n - k) | (0x40 if k == 0 else 0)
            if s[0] != want:
                note(f"long-name ordinal 0x{s[0]:02x}, expected 0x{want:02x} (short entry {name11!r})")
                return None
            if s[13] != chk:
                note(f"long-name checksum 0x{s[13]:02x} != 0x{chk:02x} (short entry {name11!r})")
                return None
            if s[12] != 0 or s[26] != 0 or s[27] != 0:
                note(f"long-name slot type / cluster field not zero (short entry {name11!r})")
                return None
        for s in reversed(slots):
            units += s[1:11] + s[14:26] + s[28:32]
        u = [units[i] | (units[i + 1] << 8) for i in range(0, len(units), 2)]
        if 0 in u:
            z = u.index(0)
            if any(x != 0xFFFF for x in u[z + 1:]):
                note(f"long name not padded with 0xFFFF after its NUL (short entry {name11!r})")
                return None
            if len(u) - z > 13:
                note(f"long name has a slot holding only padding (short entry {name11!r})")
                return None
            u = u[:z]
        elif len(u) % 13 != 0:
            return None
        else:
            pass    # exactly fills the slots: no terminator required
        if 0xFFFF in u:
            note(f"0xFFFF inside a long name without NUL terminator (short entry {name11!r})")
            return None
        try:
            return b"".join(struct.pack("<H", x) for x in u).decode("utf-16-le")
        except UnicodeDecodeError:
            note(f"long name is not valid UTF-16 (short entry {name11!r})")
            return None

    def tree(self, encoding="ibm437"):
        """{path: ('d', times) | ('f', size, bytes, times)}, plus per-directory order lists"""
        out, order = {}, {}
        seen_dirs = set()

        def go(loc, path, depth):
            if depth > 40:
                raise SpecError("directory nesting too deep")
            key = -1 if loc is None else loc
            if key in seen_dirs:
                raise SpecError("directory loop")
            seen_dirs.add(key)
            ents = self.read_dir(loc, encoding)
            dirs, files = [], []
            for e in ents:
                if e["short"] in (".", ".."):
                    continue
                p = path.rstrip("/") + "/" + e["name"]
                if e["attr"] & 0x10:
                    out[p] = ("d", e["crt"], e["wrt"], e["acc"])
                    dirs.append(e["name"])
                    go(e["cluster"], p, depth + 1)
                else:
                    data = b""
                    if e["cluster"] != 0:
                        data = b"".join(self.cluster(c) for c in self.chain(e["cluster"]))
                    if len(data) < e["size"]:
                        raise SpecError(f"{p}: chain shorter than size {e['size']}")
                    out[p] = ("f", e["size"], data[:e["size"]], e["crt"], e["wrt"], e["acc"])
                    files.append(e["name"])
            order[path] = (dirs, files)
        go(self.root_loc(), "/", 0)
        return out, order


VALID_SFN = set(b"ABCDEFGHIJKLMNOPQRSTUVWXYZ0123456789 !#$%&'()-@^_`{}~") | set(range(128, 256))


def fsck(img: bytes, ref: bytes = None, encoding="ibm437", force_ft=None):
    """list of findings (empty = sound).  Covers the conjuncts of C04 (FAT) and C05 (directories)."""
    f = []
    try:
        v = Volume(img, force_ft)
    except (SpecError, struct.error, IndexError) as e:
        return [f"boot sector: {e}"]
    # FAT copies identical
    fb = v.fatsz * v.bps
    base = v.rsvd * v.bps
    for k in range(1, v.nfats):
        if img[base:base + fb] != img[base + k * fb:base + (k + 1) * fb]:
            f.append(f"FAT copy {k} differs from copy 0")
    if v.fat_capacity() < v.count + 2:
        f.append(f"FAT holds {v.fat_capacity()} entries, volume needs {v.count + 2}")
    owner = {}
    dirs_seen = {}

    def claim(first, who, want_clusters=None, is_dir=False):
        try:
            ch = v.chain(first)
        except SpecError as e:
            f.append(f"{who}: {e}")
            return None
        for c in ch:
            if c in owner:
                f.append(f"{who}: cluster {c} also belongs to {owner[c]}")
            else:
                owner[c] = who
        if want_clusters is not None and len(ch) != want_clusters:
            f.append(f"{who}: chain has {len(ch)} clusters, size needs {want_clusters}")
        return ch

    def walk(loc, path, parent_clus, depth):
        if depth > 40:
            f.append(f"{path}: nesting too deep")
            return
        try:
            ents = v.read_dir(loc, encoding, findings=f, where=path)
        except (SpecError, IndexError, struct.error) as e:
            f.append(f"{path}: unreadable directory: {e}")
            return
        names = {}
        real = [e for e in ents]
        if loc is not None and path != "/":
            if len(real) < 2 or real[0]["name11"] != b".          " or real[1]["name11"] != b"..         ":
                f.append(f"{path}: does not start with '.' and '..'")
            else:
                if real[0]["cluster"] != loc:
                    f.append(f"{path}: '.' points at {real[0]['cluster']}, directory is at {loc}")
                if real[1]["cluster"] != parent_clus:
                    f.append(f"{path}: '..' points at {real[1]['cluster']}, parent is at {parent_clus}")
                for d in real[:2]:
                    if not d["attr"] & 0x10:
                        f.append(f"{path}: dot entry without directory attribute")
        for e in ents:
            if e["name11"] in (b".          ", b"..         "):
                if path == "/" :
                    f.append("/: dot entry in the root directory")
                continue
            n11 = e["name11"]
            if n11 in names:
                f.append(f"{path}: duplicate short name {n11!r}")
            names[n11] = True
            chk = bytearray(n11)
            if chk[0] == 0x05:
                chk[0] = 0xE5
            if any(c not in VALID_SFN for c in chk) or chk[0] == 0x20:
                f.append(f"{path}: illegal short name {n11!r}")
            if any(0x61 <= c <= 0x7A for c in chk):
                f.append(f"{path}: lower-case short name {n11!r}")
            if v.ft != 32 and e["hi"] != 0:
                f.append(f"{path}/{e['name']}: DIR_FstClusHI not zero on FAT12/16")
            p = path.rstrip("/") + "/" + e["name"]
            if e["attr"] & 0x10:
                if e["size"] != 0:
                    f.append(f"{p}: directory with size {e['size']}")
                if e["cluster"] == 0:
                    f.append(f"{p}: directory without a cluster")
                    continue
                if e["cluster"] in dirs_seen:
                    f.append(f"{p}: directory cluster {e['cluster']} already used by {dirs_seen[e['cluster']]}")
                    continue
                dirs_seen[e["cluster"]] = p
                if claim(e["cluster"], p, is_dir=True) is not None:
                    walk(e["cluster"], p, 0 if loc is None or (v.ft == 32 and loc == v.rootclus and path == "/") else loc, depth + 1)
            else:
                if e["cluster"] == 0:
                    if e["size"] != 0:
                        f.append(f"{p}: size {e['size']} without a cluster")
                else:
                    want = (e["size"] + v.bpc - 1) // v.bpc
                    ch = claim(e["cluster"], p)
                    if ch is not None and len(ch) != max(want, 1) and not (e["size"] == 0 and len(ch) == 1):
                        f.append(f"{p}: chain has {len(ch)} clusters, size {e['size']} needs {max(want, 1)}")
    if v.ft == 32:
        if claim(v.rootclus, "/") is not None:
            walk(v.rootclus, "/", 0, 0)
    else:
        walk(None, "/", 0, 0)
    # lost clusters / marks outside the data area
    for c in range(2, v.maxc + 1):
        e = v.fat_entry(c)
        if e != 0 and e != v.bad and c not in owner:
            f.append(f"cluster {c} is marked in use (0x{e:x}) but belongs to no chain")
    for c in range(v.maxc + 1, min(v.fat_capacity(), v.maxc + 1 + 4096)):
        e = v.fat_entry(c)
        r = None
        if ref is not None:
            try:
                r = Volume(ref, force_ft).fat_entry(c)
            except Exception:
                r = None
        if e != (r if r is not None else 0):
            f.append(f"FAT entry {c} beyond the last cluster {v.maxc} changed to 0x{e:x}")
    if ref is not None:
        try:
            rv = Volume(ref, force_ft)
            m = {12: 0xFFF, 16: 0x3FFF, 32: 0x03FFFFFF}[v.ft]
            if v.fat_entry(0) != rv.fat_entry(0):
                f.append(f"FAT[0] changed 0x{rv.fat_entry(0):x} -> 0x{v.fat_entry(0):x}")
            if (v.fat_entry(1) & m) != (rv.fat_entry(1) & m):
                f.append(f"FAT[1] changed 0x{rv.fat_entry(1):x} -> 0x{v.fat_entry(1):x}")
            for c in range(2, rv.maxc + 1):
                if rv.fat_entry(c) == rv.bad and v.fat_entry(c) != v.bad:
                    f.append(f"bad-cluster mark of cluster {c} lost")
            glen = 90 if v.ft == 32 else 62
            keep = [i for i in range(3, glen) if i != (65 if v.ft == 32 else 37)]
            if any(img[i] != ref[i] for i in keep):
                bad = [i for i in keep if img[i] != ref[i]]
                f.append(f"boot sector fields changed at bytes {bad[:8]}")
            if v.ft == 32:
                bk = struct.unpack_from("<H", img, 50)[0]
                if bk:
                    a = bk * v.bps
                    if any(img[a + i] != ref[a + i] for i in keep):
                        f.append("FAT32 backup boot sector geometry fields changed")
        except SpecError:
            pass
    return f


# ------------------------------------------------------------------------------------------
def sfn11(name):
    b, _, e = name.partition(".")
    return (b.ljust(8) + e.ljust(3)).encode("cp437")


def dirent(name11, attr, clus, size, date=0x5839, time=0x5000, acc=None):
    return struct.pack("<11sBBBHHHHHHHL", name11, attr, 0, 0, time, date, date if acc is None else acc,
                       (clus >> 16) & 0xFFFF, time, date, clus & 0xFFFF, size)


def lfn_slots(long, name11):
    u = long.encode("utf-16-le")
    if (len(u) // 2) % 13:
        u += b"\0\0"
    while (len(u) // 2) % 13:
        u += b"\xff\xff"
    k = len(u) // 26
    out = []
    for i in range(k, 0, -1):
        p = u[(i - 1) * 26:i * 26]
        o = i | (0x40 if i == k else 0)
        out.append(struct.pack("<B10sBBB12sH4s", o, p[:10], 0x0F, 0, lfn_checksum(name11), p[10:22], 0, p[22:26]))
    return b"".join(out)


def build(ft, bps=512, spc=1, nf=2, rsvd=None, rootent=None, clusters=100, fatsec=None, files=(), root_extra=None,
          fatfill=None, hi_bits=None, bootcode=None, oem=b"FOREIGN ", label=None, backup=True, dirty=False,
          fat1_bits=None, media=0xF8, extra_sectors=0, backup_bootcode=None, fsinfo_hints=None):
    """Independent formatter.  files: list of dicts(path components are built by the caller):
       (long|None, name11, attr, chain, data|slots) for the ROOT directory; sub-directories are given
       as entries with attr 0x10 whose `data` is the raw directory content.
    Returns (image bytes, info dict)."""
    rsvd = rsvd or (32 if ft == 32 else 1)
    rootent = 0 if ft == 32 else (rootent if rootent is not None else 64)
    rds = (rootent * 32 + bps - 1) // bps
    need = ((clusters + 2) * ft + 7) // 8
    fatsec = fatsec or -(-need // bps)
    tot = rsvd + nf * fatsec + rds + clusters * spc + extra_sectors
    img = bytearray(tot * bps)
    small = tot < 65536 and ft != 32
    h = struct.pack("<3s8sHBHBHHBHHHLL", b"\xeb\x3c\x90", oem, bps, spc, rsvd, nf, rootent, tot if small else 0, media,
                    fatsec if ft != 32 else 0, 32, 2, 0, 0 if small else tot)
    flag = 1 if dirty else 0
    if ft == 32:
        h += struct.pack("<LHHLHH12sBBBL11s8s", fatsec, 0, 0, 2, 1, 6 if backup else 0, b"\0" * 12, 0x80, flag, 0x29, 0x1234ABCD,
                         b"NO NAME    ", b"FAT32   ")
    else:
        h += struct.pack("<BBBL11s8s", 0x80, flag, 0x29, 0x1234ABCD, b"NO NAME    ", (b"FAT12   " if ft == 12 else b"FAT16   "))
    img[0:len(h)] = h
    if bootcode:
        img[len(h):len(h) + len(bootcode)] = bootcode[:510 - len(h)]
    img[510:512] = b"\x55\xaa"
    if ft == 32:
        fh = fsinfo_hints or (0xFFFFFFFF, 0xFFFFFFFF)       # (free count, next free): "unknown" unless the caller wants real hints
        fsi = struct.pack("<L480xLLL12xL", 0x41615252, 0x61417272, fh[0], fh[1], 0xAA550000)
        img[bps:bps + 512] = fsi
        if backup:
            img[6 * bps:6 * bps + 512] = img[0:512]
            if backup_bootcode:
                # a backup whose boot code differs from the primary's (an older copy): outside the BPB, so nothing may touch it
                img[6 * bps + len(h):6 * bps + len(h) + len(backup_bootcode)] = backup_bootcode[:510 - len(h)]
            img[7 * bps:7 * bps + 512] = fsi
    nent = fatsec * bps * 8 // ft
    fat = [0] * nent
    eoc = {12: 0xFFF, 16: 0xFFFF, 32: 0x0FFFFFFF}[ft]
    fat[0] = {12: 0xF00, 16: 0xFF00, 32: 0x0FFFFF00}[ft] | media
    fat[1] = eoc if fat1_bits is None else fat1_bits
    if fatfill:
        for k, val in fatfill.items():
            fat[k] = val
    fds = rsvd + nf * fatsec + rds
    bpc = bps * spc

    def caddr(c):
        return ((c - 2) * spc + fds) * bps
    root = b""
    if label:
        root += dirent(label.ljust(11).encode("ascii"), 0x08, 0, 0)
    rootchain = None
    for ent in files:
        long, n11, attr, chain, data = ent[:5]
        for a, b in zip(chain, chain[1:]):
            fat[a] = b
        if chain:
            fat[chain[-1]] = eoc
        for i, c in enumerate(chain):
            img[caddr(c):caddr(c) + bpc] = data[i * bpc:(i + 1) * bpc].ljust(bpc, b"\0")
        if n11 is None:
            rootchain = chain     # FAT32 root directory content given explicitly
            continue
        if long:
            root += lfn_slots(long, n11)
        root += dirent(n11, attr, chain[0] if chain else 0, len(data) if not attr & 0x10 else 0)
    if root_extra is not None:
        root = root_extra(root)
    if ft == 32:
        if rootchain is None:
            nrc = max(1, -(-len(root) // bpc))
            rootchain = list(range(2, 2 + nrc))          # callers that build large roots keep clusters 2..2+n free for it
            for a, b2 in zip(rootchain, rootchain[1:]):
                if fat[a] != 0:
                    raise ValueError("root directory chain collides with a file")
                fat[a] = b2
            fat[rootchain[-1]] = eoc
            img[caddr(2):caddr(2) + len(root)] = root
    else:
        ro = (rsvd + nf * fatsec) * bps
        if len(root) > rootent * 32:
            raise ValueError("root directory overflow")
        img[ro:ro + len(root)] = root
    if ft == 12:
        fb = bytearray(fatsec * bps)
        for i, val in enumerate(fat):
            o = i * 3 // 2
            if o + 1 >= len(fb):
                break
            if i & 1:
                fb[o] = (fb[o] & 0x0F) | ((val & 0xF) << 4)
                fb[o + 1] = val >> 4
            else:
                fb[o] = val & 0xFF
                fb[o + 1] = (fb[o + 1] & 0xF0) | (val >> 8)
    elif ft == 16:
        fb = struct.pack("<%dH" % nent, *fat)
    else:
        if hi_bits:
            fat = [x | (hi_bits.get(i, 0) << 28) for i, x in enumerate(fat)]
        fb = struct.pack("<%dL" % nent, *fat)
    for k in range(nf):
        img[(rsvd + k * fatsec) * bps:(rsvd + (k + 1) * fatsec) * bps] = fb
    return bytes(img), dict(tot=tot, fds=fds, fatsec=fatsec, nent=nent, bpc=bpc, clusters=clusters, maxc=clusters + 1, rds=rds)


def subdir_bytes(own_cluster, parent_cluster, entries=b"", date=0x5839, time=0x5000):
    return (dirent(b".          ", 0x10, own_cluster, 0, date, time) + dirent(b"..         ", 0x10, parent_cluster, 0, date, time)
            + entries)
