"""History-level tie: run one op program through the implementation and through the extracted
model, compare result, error class and device writes after every op."""
from . import core
from .core import ImplRun, ModelRun, ScriptedClock, clock_tuple, compare_writes, canon, MODEL_OPS

VOLATILE_OPS = {"create", "makedir", "remove", "removedir", "removetree", "write", "truncate", "hclose", "open"}


def run_program(image, ops, mount=None, model=None, on_step=None, stop_on_disagree=True):
    """returns dict(steps=[...], disagreement=None|{...}, impl=ImplRun)
    ops: list of op lists.  mount: dict(encoding, preserve_case, read_only, offset, lazy_load, utc)"""
    mount = dict(mount or {})
    enc = mount.get("encoding", "ibm437")
    if (model is not None and getattr(model, "stub", False)) or (model is None and core.os.environ.get("VERIF_NO_MODEL")):
        from . import history
        case = history.Case("", image, ops, mount=mount)
        r = history.run_impl_only(case, on_step)
        r["model"] = None
        return r
    ir = ImplRun(image, offset=mount.get("offset", 0), encoding=enc, preserve_case=mount.get("preserve_case", True),
                 utc=mount.get("utc", False), lazy_load=mount.get("lazy_load", True), read_only=mount.get("read_only", False))
    mr = ModelRun(image, encoding=enc, preserve_case=mount.get("preserve_case", True),
                  read_only=mount.get("read_only", False), model=model)
    out = {"steps": [], "disagreement": None, "impl": ir, "model": mr}
    with ScriptedClock() as clk:
        clk.t = clock_tuple(0)
        (ires, iw) = ir.mount()
        (mres, mw) = mr.mount()
        d = None
        if ires[0] != mres[0] or (ires[0] == "err" and ires[1] != mres[1]):
            d = {"at": "mount", "impl": list(ires), "model": list(mres)}
        elif ires[0] == "ok":
            wd = compare_writes(iw, mw)
            if wd:
                d = {"at": "mount", "writes": wd}
            elif ir.dirty_warned() != (mr.info.get("dirty") == "1"):
                d = {"at": "mount", "dirty_warning": {"impl": ir.dirty_warned(), "model": mr.info.get("dirty")}}
        out["steps"].append({"op": ["mount"], "impl": list(ires), "nwrites": len(iw)})
        model_alive = True
        if d:
            out["disagreement"] = d
            model_alive = False          # from here on only the implementation runs (the direct oracles still judge it)
        if ires[0] != "ok":
            return out
        for i, op in enumerate(ops):
            now = clock_tuple(i + 1)
            clk.t = now
            ires, iw = ir.op(op)
            if ires[0] == "skip":
                out["steps"].append({"op": op, "impl": ["skip", None], "nwrites": 0})
                continue
            step = {"op": op, "impl": canon(list(ires)), "nwrites": len(iw)}
            if op[0] in MODEL_OPS and model_alive:
                mres, mw = mr.op(op, now)
                step["model"] = canon(list(mres))
                if canon(list(ires)) != canon(list(mres)):
                    d = {"at": i, "op": op, "impl": canon(list(ires)), "model": canon(list(mres))}
                elif ires[0] == "ok":
                    # (writes of a FAILED op are not compared: the model's error monad drops the partial
                    #  state; that they touch nothing visible is judged by the tree / fsck oracles)
                    wd = compare_writes(iw, mw)
                    if wd:
                        d = {"at": i, "op": op, "writes": wd}
                    elif op[0] in VOLATILE_OPS and ir.fs is not None and op[0] != "closefs":
                        # the volatile state the next operations depend on: in-memory FAT and allocation hint
                        ws, r = mr.m.cmd("fatsig")
                        pf = ir.fs.fs
                        sig = f"{len(pf.fat)} " + core.hashlib.md5(",".join(str(x) for x in pf.fat).encode()).hexdigest()
                        t = r.split()
                        # same table; hints are compared by what they mean — the first free cluster the next scan finds — because a
                        # rolled-back operation may leave the implementation's hint at another, equally valid, position
                        def nxt(h):
                            return next((k for k in range(max(h, 2), len(pf.fat)) if pf.fat[k] == 0), -1)
                        if " ".join(t[2:]) != sig or nxt(int(t[1])) != nxt(pf.first_free_cluster):
                            d = {"at": i, "op": op, "volatile_fat_or_hint": {"impl": f"hint {pf.first_free_cluster} -> {nxt(pf.first_free_cluster)} " + sig,
                                                                             "model": f"hint {t[1]} -> {nxt(int(t[1]))} " + " ".join(t[2:])}}
            out["steps"].append(step)
            if on_step:
                on_step(i, op, ires, ir)
            if d and out["disagreement"] is None:
                out["disagreement"] = d
                model_alive = False
    return out
