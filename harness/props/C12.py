"""C12 — a crash in the middle of an operation damages only what was being changed."""
import random
import warnings

from .. import core, fatspec, gen, history
from ..core import ImplRun, Model, ScriptedClock, clock_tuple
from . import _hist

LEVEL_NOTE = ("lemmas: sector-wise mixtures of two FAT images that agree on an entry decode that entry to the common value (FAT12 straddling "
              "included); region confinement of each operation's log in the model; tie: byte-exact logs; the direct oracle remounts the real "
              "device image at every crash point")
TRUSTED = ["Coq 8.16.1 kernel", "tools/translate.py", "extraction + driver", "crash model: the device stops accepting writes; sectors are written in order and atomically"]
RULE = ("histories over nested trees with durable files elsewhere in the tree; for every operation the real write log is torn at every write "
        "boundary and at sector boundaries inside multi-sector writes (all of them up to 60 per operation, evenly thinned beyond); each torn "
        "image is mounted read-only, lazily, by the real code and every protected file (durable before the op, not its target, no directory on "
        "its path rewritten by the op) must resolve, be listed and read back unchanged.  non-trivial = operation with >= 3 crash points and "
        ">= 1 protected file; distinct = (volume, op kind, crash offset)")


def rewritten_dirs(op):
    """directories whose contents the operation rewrites (prefix paths)"""
    k = op[0]
    if k in ("create", "makedir", "remove", "removedir", "setinfo", "open"):
        p = op[2] if k == "open" else op[1]
        par = p.rsplit("/", 1)[0] or "/"
        out = [par]
        if k in ("makedir", "removedir"):
            out.append(p)
        return out
    if k == "removetree":
        return [op[1].rsplit("/", 1)[0] or "/", op[1]]
    return []


def protected(tree, dirs, targets):
    """the property's wording: durable, not the target, and living in a directory the operation does not rewrite (a directory
    further up the path may well be rewritten: its entry for the way down has to survive)"""
    out = {}
    for p, t in tree.items():
        if t[0] != "f" or p in targets:
            continue
        own_dir = p.rsplit("/", 1)[0] or "/"
        if own_dir in [d.rstrip("/") or "/" for d in dirs]:
            continue
        out[p] = t
    return out


def crash_points(writes, bps, cap):
    pts = []
    for wi, (pos, data) in enumerate(writes):
        n = len(data)
        pts.append((wi, 0))
        if n > bps:
            first = bps - (pos % bps) if pos % bps else bps
            cut = first
            while cut < n:
                pts.append((wi, cut))
                cut += bps
    pts.append((len(writes), 0))
    if len(pts) > cap:
        step = len(pts) / cap
        keep = sorted({int(i * step) for i in range(cap)} | {0, 1, len(pts) - 2, len(pts) - 1})
        pts = [pts[i] for i in keep]
    return pts


def torn_image(base, writes, wi, cut):
    b = bytearray(base)
    for pos, data in writes[:wi]:
        b[pos:pos + len(data)] = data
    if cut and wi < len(writes):
        pos, data = writes[wi]
        b[pos:pos + cut] = data[:cut]
    return bytes(b)


def run(ctx):
    vols = [v for v in gen.volumes(ctx.tier) if v[0] in ("mkfs12-64k", "build12-spc2-nf1", "build12-bps1024-nf3", "build32-tiny", "build16-4100",
                                                         "build12-fat2sec", "mkfs16-nf1", "build16-spc4")]
    m = Model()
    built = {}
    try:
        for i in range(ctx.scale(10, 150)):
            if ctx.time_left() < 15:
                break
            label, thunk = vols[i % len(vols)]
            if label not in built:
                built[label] = thunk()
            img, meta = built[label]
            rng = random.Random(ctx.rng.randrange(1 << 62))
            enc = "ibm437"
            v = fatspec.Volume(img, force_ft=history.force_ft(meta))
            # durable part
            pre = [["makedir", "/keep"], ["makedir", "/keep/deep"], ["makedir", "/work"], ["makedir", "/work/wrk2"]]
            for j, n in enumerate(["K1.BIN", "a durable long name.dat", "k3.txt"]):
                d = rng.choice(["/keep", "/keep/deep"])
                size = rng.choice([10, v.bpc, v.bpc + 1, 3 * v.bpc - 1])
                pre += [["open", f"k{j}", d + "/" + n, "w"], ["write", f"k{j}", bytes(rng.randrange(1, 256) for _ in range(size)).hex()], ["hclose", f"k{j}"]]
            # a durable file BELOW the directory the work happens in: /work is rewritten by most operations, /work/wrk2 is not
            pre += [["open", "w2", "/work/wrk2/below.bin", "w"], ["write", "w2", "42" * (v.bpc + 7)], ["hclose", "w2"],
                    ["open", "w3", "/work/wrk2/a long name below the work directory.txt", "w"], ["write", "w3", "43" * 100], ["hclose", "w3"]]
            # a durable file whose size is an exact multiple of the cluster size, then appended by a few bytes (its last FAT link is
            # the only thing that reaches the device at close)
            pre += [["open", "v", "/keep/V.BIN", "w"], ["write", "v", "56" * (2 * v.bpc)], ["hclose", "v"],
                    ["open", "v2", "/keep/V.BIN", "a"], ["write", "v2", "57" * 10], ["hclose", "v2"]]
            pool = [n for n in gen.name_pool(rng, big=False) if not _hist.quarantined_name(n)]
            work = gen.namespace_program(rng, nops=ctx.scale(10, 24), pool=pool, depth=3)
            scripted = []
            if i % 2 == 0:
                # a directory with nf one-slot entries, then a long-named sub-directory with a durable file, then the FIRST entry is removed:
                # the rewrite shifts everything up; nf is chosen around the slot count of a sector so that the long-name set lies
                # across the sector boundary in the old or the new layout (D35)
                nf = (v.bps // 32) - 2 + [0, 1, -1, 2, -2][(i // 2) % 5]
                dn = ["long dir name", "a much longer directory name here", "the directory with a name of fifty characters....x"][(i // 2) % 3]
                first = ["F00.TXT", "first file with a long name.txt"][(i // 4) % 2]
                scripted = ([["makedir", "/shift"], ["create", "/shift/" + first]] + [["create", f"/shift/F{q:02d}.TXT"] for q in range(1, nf)] +
                            [["makedir", "/shift/" + dn], ["open", "sh", f"/shift/{dn}/keep.bin", "w"], ["write", "sh", "53" * 700], ["hclose", "sh"]])
                pre += scripted
                # ... before that a NEW file is created in it: the entries already there - the sub-directory's among them - must stay where
                # they are (C12-m6: files written before sub-directories, so every new file pushed the sub-directory's slots along)
                work = [["create", "/shift/NEW.TXT"], ["remove", "/shift/" + first]] + work
            work = [o if (len(o) > 1 and isinstance(o[1], str) and o[1].startswith("/shift")) else
                    [o[0]] + [("/work" + x if isinstance(x, str) and x.startswith("/") else x) for x in o[1:]] for o in work
                    if o[0] in ("makedir", "create", "open", "write", "hclose", "remove", "removedir", "removetree", "truncate", "seek", "setinfo")]
            if i % 2 == 1 and v.bpc == 512:
                # fragmented free space: A, KEEP, C written back to back, A and C removed; /work's cluster is almost full, a name of 240 characters
                # (20 slots; 512-byte clusters hold 16) makes it grow by TWO clusters in one rewrite — they are A's and C's, KEEP lies between them (C12-m8: the new clusters
                # zeroed as one extent from the first to the last)
                pre += [["open", "fa", "/keep/A1.BIN", "w"], ["write", "fa", "a1" * v.bpc], ["hclose", "fa"],
                        ["open", "fk", "/keep/BETWEEN.BIN", "w"], ["write", "fk", bytes(range(1, 252)).hex() * (v.bpc // 251 + 1)], ["hclose", "fk"],
                        ["open", "fc", "/keep/C1.BIN", "w"], ["write", "fc", "c1" * v.bpc], ["hclose", "fc"]] + \
                       [["create", f"/work/W{q:02d}.TXT"] for q in range(10)] + [["remove", "/keep/A1.BIN"], ["remove", "/keep/C1.BIN"]]
                work = [["create", "/work/" + "n" * 236 + ".txt"]] + work
            if i % 4 == 0:
                # a handle truncated AT its position on a cluster boundary, the released cluster handed to a new durable file in another directory,
                # then a write through the handle (C12-m9 = C02-m4: the cursor stayed on the released cluster — the write lands in the other file)
                work = [["open", "tt", "/work/T.BIN", "w+"], ["write", "tt", "54" * (3 * v.bpc)], ["seek", "tt", 2 * v.bpc, 0], ["truncate", "tt", None],
                        ["open", "nn", "/keep/N.BIN", "w"], ["write", "nn", "4e" * v.bpc], ["hclose", "nn"], ["write", "tt", "55" * 10], ["hclose", "tt"]] + work
            if i % 2 == 1:
                # operations in the ROOT directory itself (the fixed region on FAT12/16): everything below /keep and /work is protected
                work = [["makedir", "/made in the root"], ["create", "/root file.txt"], ["makedir", "/made in the root/second level"],
                        ["open", "rf", "/root file.txt", "a"], ["write", "rf", "52" * (v.bpc + 3)], ["hclose", "rf"], ["removedir", "/made in the root/second level"]] + work
            if i % 3 == 0 and v.bpc <= 2048:
                # a cluster-based directory that grows by a cluster on its LAST makedir: the operation after it starts from a state in which that
                # growth is durable (C12-m10: the only FAT flush of makedir moved in front of the parent's rewrite, the link to the new
                # cluster stayed in memory until some later operation flushed)
                ng = (v.bpc // 32 - 2) // 2 + 1
                pre += [["makedir", "/grow"]] + [["makedir", f"/grow/dir number {q:02d}"] for q in range(ng)]
            ops = pre + work
            case = history.Case(label, img, ops, mount=dict(encoding=enc), meta=meta)
            ctx.evaluations += 1
            ir = ImplRun(img, encoding=enc)
            with ScriptedClock() as clk:
                res, _ = ir.mount()
                if res[0] != "ok":
                    continue
                open_h = {}
                for k, op in enumerate(ops):
                    clk.t = clock_tuple(k + 1)
                    durable_ok = True
                    if k >= len(pre):
                        tree = ir.walk()
                        base = ir.dev.volume()
                    own = open_h.get(op[1]) if op[0] in ("write", "truncate", "hclose", "seek", "read") else None
                    r, w = ir.op(op)
                    if op[0] == "open" and r[0] == "ok":
                        open_h[op[1]] = op[2]
                    if op[0] == "hclose":
                        open_h.pop(op[1], None)
                    if k < len(pre) or not w or not durable_ok:
                        continue
                    targets = {op[2] if op[0] == "open" else op[1]} if len(op) > 1 and isinstance(op[1], str) else set()
                    if own:
                        targets = {own}
                    dirs = rewritten_dirs(op) if op[0] not in ("write", "truncate", "hclose") else [t.rsplit("/", 1)[0] or "/" for t in targets]
                    targets |= set(open_h.values())        # files with an open handle are not durable yet
                    prot = protected(tree, dirs, targets)
                    if op[0] == "removetree":
                        # the whole subtree is what the operation removes: everything below it is its target, at every depth
                        prot = {p: t for p, t in prot.items() if not p.startswith(op[1].rstrip("/") + "/")}
                    # directories too are "reachable by their path and listed": durable, not the target, in a directory the operation does not rewrite
                    dnorm = [d.rstrip("/") or "/" for d in dirs]
                    prot_d = [p for p, t in tree.items() if t[0] == "d" and p not in targets and p not in dnorm and (p.rsplit("/", 1)[0] or "/") not in dnorm
                              and not (op[0] == "removetree" and p.startswith(op[1].rstrip("/") + "/"))]
                    pts = crash_points(w, v.bps, ctx.scale(60, 200))
                    if len(pts) >= 3 and prot:
                        ctx.nontrivial.add((label, op[0], tuple(p for p in pts[:6])))
                    ctx.dist["crash:" + op[0]] += len(pts)
                    ctx.extra["crash_points"] = ctx.extra.get("crash_points", 0) + len(pts)
                    for wi, cut in pts:
                        timg = torn_image(base, w, wi, cut)
                        rep = dict(case.replay(), at=k, crash=dict(write_index=wi, bytes_of_that_write=cut, of_writes=len(w)))
                        try:
                            rw, _ = history.remount_walk(timg, 0, enc, True)
                        except Exception as e:  # noqa
                            # reading must work for the protected files; a walk that fails somewhere else is judged per file below
                            rw = None
                            err = e
                        bad = None
                        if rw is None:
                            # resolve the protected files one by one
                            dev = core.TraceDevice(timg, writable=False, record_reads=False)
                            try:
                                with warnings.catch_warnings():
                                    warnings.simplefilter("ignore")
                                    from pyfatfs.PyFatFS import PyFatBytesIOFS
                                    f2 = PyFatBytesIOFS(dev, encoding=enc)
                                    for p, t in prot.items():
                                        try:
                                            if bytes(f2.readbytes(p)) != t[2]:
                                                bad = f"{p!r} reads back differently"
                                                break
                                        except Exception as e2:  # noqa
                                            bad = f"{p!r} cannot be read: {type(e2).__name__}: {e2}"
                                            break
                                    for p in prot_d if not bad else []:
                                        try:
                                            if not f2.isdir(p):
                                                bad = f"directory {p!r} is no longer reachable"
                                                break
                                        except Exception as e2:  # noqa
                                            bad = f"directory {p!r} cannot be resolved: {type(e2).__name__}: {e2}"
                                            break
                            except Exception as e3:  # noqa
                                bad = f"image cannot be mounted: {type(e3).__name__}: {e3}"
                        else:
                            for p, t in prot.items():
                                if p not in rw:
                                    bad = f"{p!r} is no longer reachable"
                                    break
                                if rw[p][0] != "f" or rw[p][2] != t[2]:
                                    bad = f"{p!r} reads back differently"
                                    break
                            for p in prot_d if not bad else []:
                                if p not in rw or rw[p][0] != "d":
                                    bad = f"directory {p!r} is no longer reachable"
                                    break
                        if bad:
                            ctx.violation(f"{label}: crash during op {k} {op[:2]} after write {wi}/{len(w)} (+{cut} bytes): {bad}",
                                          f"crash-loss:{op[0]}:{'mount' if 'mounted' in bad else 'file'}", rep)
                            break
                    else:
                        continue
                    break
            ctx.sample(dict(volume=label, protected_example=sorted(p for p in (tree if 'tree' in dir() else {}))[:4], ops=[o[:3] if o[0] != "write" else [o[0], o[1], "<data>"] for o in work[:8]]))
        # the tie: ordinary histories, byte-exact logs (what makes the model's log theorems transfer)
        _hist.run_histories(ctx, ("internal",), nprog=ctx.scale(6, 60), nops=ctx.scale(25, 60))
    finally:
        m.close()


def extra_search(ctx):
    run(ctx)
