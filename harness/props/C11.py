"""C11 — the unclean-shutdown flag brackets every write session."""
import random
import struct

from .. import core, fatspec, gen, history
from ..core import Model, ImplRun
from . import _hist, C10

LEVEL_NOTE = ("theorem C11_bracket about the model's session log (mount ++ ops ++ close): every proper prefix leaves a mark or only boot-sector "
              "writes remain; the model's log is tied byte for byte to the implementation's; the direct oracle replays every prefix of the real log")
TRUSTED = ["Coq 8.16.1 kernel", "tools/translate.py (masks and flag constants are generated)", "extraction + driver", "harness/fatspec.py geometry"]
RULE = ("sessions = mount, generated history, close on FAT12/16/32 volumes with 1..3 FATs, initially clean or marked in one of three ways; the image "
        "is reconstructed after EVERY device write of the real log: it must carry a mark, or equal the final image outside the boot-sector copies; "
        "mounting a marked image must warn; the closed image carries no mark.  non-trivial = session with >= 20 writes; distinct = (volume, "
        "initial marking, write-offset sequence)")


def marks(b, v):
    flag = b[65 if v.ft == 32 else 37] & 1
    if v.ft == 12:
        return bool(flag)
    base = v.rsvd * v.bps
    if v.ft == 16:
        clean = struct.unpack_from("<H", b, base + 2)[0] & 0x8000
    else:
        clean = struct.unpack_from("<L", b, base + 4)[0] & 0x08000000
    return bool(flag) or not clean


def boot_ranges(v, img):
    r = [(0, v.bps)]
    if v.ft == 32:
        bk = struct.unpack_from("<H", img, 50)[0]
        if bk:
            r.append((bk * v.bps, (bk + 1) * v.bps))
    return r


def equal_outside(a, b, ranges):
    pos = 0
    for lo, hi in sorted(ranges):
        if a[pos:lo] != b[pos:lo]:
            return False
        pos = hi
    return a[pos:] == b[pos:]


def check_session(ctx, label, img0, writes, final, meta, how, rep):
    v = fatspec.Volume(img0, force_ft=history.force_ft(meta))
    cur = bytearray(img0)
    br = boot_ranges(v, img0)
    n = len(writes)
    for i, (pos, data) in enumerate(writes):
        if 0 <= pos and pos + len(data) <= len(cur):
            cur[pos:pos + len(data)] = data     # (a write that misses the volume — C08's finding — marks nothing IN the volume: C11-m8)
        if i == n - 1:
            break
        if marks(cur, v) and (i < 6 or i % 16 == 0 or i >= n - 5):
            # "mounting a volume that carries a mark emits the unclean-unmount warning": the intermediate states around the marking at mount
            # and the un-marking at close, and a sample in between, are mounted (read-only)
            ctx.dist["intermediate-mounts"] += 1
            ir2 = ImplRun(bytes(cur), read_only=True)
            r2, _ = ir2.mount()
            if r2[0] == "ok" and not ir2.dirty_warned():
                ctx.violation(f"{label}/{how}: the device state after write {i + 1} of {n} carries a dirty mark, but mounting it gives no unclean-unmount warning",
                              f"marked-no-warning:ft{v.ft}:nf{v.nfats}", dict(rep, write_index=i, offset=pos, length=len(data)))
                return
        if not marks(cur, v):
            if not equal_outside(bytes(cur), final, br):
                ctx.violation(f"{label}/{how}: after write {i + 1} of {n} (offset {pos}, {len(data)} bytes) the device carries no dirty mark but is not complete",
                              f"unmarked-incomplete:ft{v.ft}:nf{v.nfats}:{'boot' if pos < v.bps else 'fat' if pos < v.fds * v.bps else 'data'}",
                              dict(rep, write_index=i, offset=pos, length=len(data)))
                return
    if marks(final, v):
        ctx.violation(f"{label}/{how}: the closed image still carries a dirty mark", "closed-marked", rep)


def run(ctx):
    vols = gen.volumes(ctx.tier)
    extra = [("build16-nf1", lambda: fatspec.build(16, clusters=4100, nf=1, rootent=32) and (fatspec.build(16, clusters=4100, nf=1, rootent=32)[0], dict(source="build", ft=16, clusters=4100, nf=1, rootent=32))),
             ("build16-nf3", lambda: (fatspec.build(16, clusters=4100, nf=3, rootent=32)[0], dict(source="build", ft=16, clusters=4100, nf=3, rootent=32))),
             ("build32-tiny-nf3", lambda: (fatspec.build(32, clusters=200, nf=3)[0], dict(source="build", ft=32, clusters=200, nf=3))),
             ("build32-tiny-nf1", lambda: (fatspec.build(32, clusters=200, nf=1)[0], dict(source="build", ft=32, clusters=200, nf=1))),
             # FSInfo with real hints, as a formatter that maintains them leaves it (C11-m9: the hints "invalidated" at mount BEFORE the volume is marked)
             ("build32-fsinfo-hints", lambda: (fatspec.build(32, clusters=260, nf=2, fsinfo_hints=(257, 3))[0], dict(source="build", ft=32, clusters=260, nf=2, fsinfo_hints=[257, 3])))]
    vols = vols + extra
    m = Model()
    built = {}
    try:
        for i in range(ctx.scale(26, 400)):
            if ctx.time_left() < 10:
                break
            label, thunk = vols[i % len(vols)]
            if label not in built:
                built[label] = thunk()
            img, meta = built[label]
            how = ["clean", "boot", "clean", "fat", "both"][i % 5]
            img0 = C10.make_dirty(img, how, meta.get("ft")) if how != "clean" else img
            rng = random.Random(ctx.rng.randrange(1 << 62))
            pool = [n for n in gen.name_pool(rng, big=False) if not _hist.quarantined_name(n)]
            ops = gen.namespace_program(rng, nops=ctx.scale(14, 40), pool=pool)
            # sessions that end with un-flushed work: remove / wipe as last ops, and a handle left open
            tail = rng.choice([[], [["remove", "/A.TXT"]], [["create", "/README", 1]], [["open", "left", "/left.bin", "w"], ["write", "left", "00" * 700]]])
            ops = ops + tail + [["closefs"]]
            # (some sessions on a volume at a non-zero offset of its device: the marks are marks of the VOLUME)
            case = history.Case(label, img0, ops, mount=dict(encoding="ibm437", **({"offset": 4096} if i % 3 == 2 else {})), meta=meta)
            rep = dict(case.replay(), initial_marking=how)
            r = history.run_case(ctx, case, oracles=("internal",), model=m)
            ir = r["impl"]
            if r["steps"][0]["impl"][0] != "ok":
                continue
            v = fatspec.Volume(img0, force_ft=history.force_ft(meta))
            if how != "clean" and marks(img0, v) and not ir.dirty_warned():
                ctx.violation(f"{label}/{how}: mounting a marked volume gave no unclean-unmount warning", "no-warning", rep)
            if how == "clean" and ir.dirty_warned():
                ctx.violation(f"{label}: unclean-unmount warning on a clean volume", "spurious-warning", rep)
            closed = any(s["op"][0] == "closefs" and s["impl"][0] == "ok" for s in r["steps"])
            if not closed:
                continue
            check_session(ctx, label, img0, ir.dev.writes, ir.dev.volume(), meta, how, rep)
            if len(ir.dev.writes) >= 20:
                ctx.nontrivial.add((label, how, tuple(w[0] for w in ir.dev.writes)))
            ctx.dist[f"ft{v.ft}-nf{v.nfats}-{how}"] += 1
            ctx.extra["prefixes_checked"] = ctx.extra.get("prefixes_checked", 0) + len(ir.dev.writes)
    finally:
        m.close()


def extra_search(ctx):
    run(ctx)
