"""C02 — file objects have exact byte semantics at every offset and size (reference: a byte
buffer with Python binary-file semantics per open mode)."""
import random

from .. import core, fatspec, tie, history
from ..core import Model

LEVEL_NOTE = ("theorems about the model's handle layer (cursor invariant, read/write vs the byte-buffer abstraction); the model is tied to "
              "FatIO by results and write logs; the implementation is compared with the reference buffer after every call")
TRUSTED = ["Coq 8.16.1 kernel", "tools/translate.py (FatIO.seek cursor arithmetic is generated)", "extraction + driver",
           "reference buffer = bytearray + position with io.BytesIO semantics; programs never seek beyond EOF before a write (as the property says)"]
RULE = ("adaptive programs over open(r,r+,w,w+,a,a+,x)/seek/read/write/truncate/tell/close on 2-3 files, offsets and lengths at 0, +-1 of every "
        "cluster multiple, EOF; cluster sizes 512 B..64 KiB, FAT12/16/32, free space pre-filled with 0xA5; after every call all files are "
        "read back through fresh handles.  non-trivial = program that crosses a cluster boundary with a read or a write; distinct = by op sequence")


class RefFile:
    def __init__(self):
        self.data = bytearray()


class RefHandle:
    def __init__(self, f, mode):
        self.f, self.mode, self.pos = f, mode, 0
        self.reading = "r" in mode or "+" in mode
        self.writing = mode != "r"
        self.appending = "a" in mode
        if "w" in mode:
            del f.data[:]
        if self.appending:
            self.pos = len(f.data)


def garbage_volume(ft, **kw):
    img, info = fatspec.build(ft, **kw)
    b = bytearray(img)
    start = info["fds"] * kw.get("bps", 512)
    keep = info["bpc"] if ft == 32 else 0       # the FAT32 root cluster stays as built
    for i in range(start + keep, len(b)):
        b[i] = 0xA5
    return bytes(b), info


VOLS = [("g12-512", dict(ft=12, clusters=200, spc=1, rootent=32)), ("g12-2k", dict(ft=12, clusters=120, spc=4, rootent=32)),
        ("g16-512", dict(ft=16, clusters=4100, spc=1, rootent=32)), ("g32-tiny-1k", dict(ft=32, clusters=150, spc=2)),
        ("g12-bps4096", dict(ft=12, clusters=60, bps=4096, spc=1, rootent=128))]
VOLS_T = [("g12-64k", dict(ft=12, clusters=30, spc=128, rootent=32)), ("g16-32k", dict(ft=16, clusters=4090, spc=64, rootent=32)),
          ("g32-tiny-8k", dict(ft=32, clusters=60, spc=16))]


def gen_and_expect(rng, bpc, nops):
    """program + the reference's expected result for each op"""
    files = {f"/F{i}.BIN": None for i in range(3)}
    handles = {}
    ops, exp = [], []
    hn = 0
    marks = sorted({0, 1, bpc - 1, bpc, bpc + 1, 2 * bpc - 1, 2 * bpc, 2 * bpc + 1, 3 * bpc, 3 * bpc + 7, bpc // 2})
    crossed = False

    def emit(op, res):
        ops.append(op)
        exp.append(res)
    while len(ops) < nops:
        r = rng.random()
        if handles and rng.random() < 0.06:
            # targeted: read cluster j, seek back to a cluster boundary i*bpc < j*bpc, overwrite through cluster j, read cluster j again
            h = rng.choice(sorted(handles))
            hd = handles[h]
            size = len(hd.f.data)
            if hd.reading and hd.writing and not hd.appending and size >= 2 * bpc + 2:
                j = rng.randrange(1, size // bpc)
                i0 = rng.randrange(0, j)
                hd.pos = j * bpc
                emit(["seek", h, hd.pos, 0], ("ok", hd.pos))
                d1 = bytes(hd.f.data[hd.pos:hd.pos + 5])
                hd.pos += len(d1)
                emit(["read", h, 5], ("ok", d1))
                hd.pos = i0 * bpc
                emit(["seek", h, hd.pos, 0], ("ok", hd.pos))
                n = (j - i0) * bpc + rng.choice([1, 7, bpc // 2])
                n = min(n, size - hd.pos)
                data = bytes(rng.randrange(1, 256) for _ in range(n))
                hd.f.data[hd.pos:hd.pos + n] = data
                hd.pos += n
                emit(["write", h, data.hex()], ("ok", n))
                hd.pos = j * bpc
                emit(["seek", h, hd.pos, 0], ("ok", hd.pos))
                d2 = bytes(hd.f.data[hd.pos:hd.pos + 9])
                hd.pos += len(d2)
                emit(["read", h, 9], ("ok", d2))
                crossed = True
                continue
        open_for = {}
        for h, hd in handles.items():
            open_for.setdefault(hd.f, []).append(hd)
        if r < 0.18 or not handles:
            name = rng.choice(sorted(files))
            f = files[name]
            others = open_for.get(f, []) if f is not None else []
            if f is None:
                mode = rng.choice(["w", "w+", "a", "a+", "x", "r", "r+"])
            elif others:
                if any(o.writing for o in others):
                    continue
                mode = "r"          # several handles on one file: all read-only
            else:
                mode = rng.choice(["r", "r+", "r+", "w", "w+", "a", "a+", "x"])
            hn += 1
            h = f"h{hn}"
            if f is None and mode in ("r", "r+"):
                emit(["open", h, name, mode], ("err", "RNF"))
                continue
            if f is not None and "x" in mode:
                emit(["open", h, name, mode], ("err", "FEXISTS"))
                continue
            if f is None:
                f = files[name] = RefFile()
            handles[h] = RefHandle(f, mode)
            emit(["open", h, name, mode], ("ok", None))
            continue
        h = rng.choice(sorted(handles))
        hd = handles[h]
        size = len(hd.f.data)
        if r < 0.34:
            off = min(rng.choice(marks + [size, max(0, size - 1)]), size)
            hd.pos = off
            emit(["seek", h, off, 0], ("ok", off))
        elif r < 0.40:
            back = min(size, rng.choice([0, 1, bpc, bpc + 1]))
            hd.pos = size - back
            emit(["seek", h, -back, 2], ("ok", hd.pos))
        elif r < 0.45:
            delta = rng.choice([0, 1, -1, bpc, -bpc])
            np_ = hd.pos + delta
            if 0 <= np_ <= size:
                hd.pos = np_
                emit(["seek", h, delta, 1], ("ok", np_))
        elif r < 0.60:
            n = rng.choice([-1, 0, 1, bpc - 1, bpc, bpc + 1, 2 * bpc + 3])
            if not hd.reading:
                emit(["read", h, n], ("err", "IOERR"))
                continue
            data = bytes(hd.f.data[hd.pos:] if n < 0 else hd.f.data[hd.pos:hd.pos + n])
            if len(data) and (hd.pos // bpc) != ((hd.pos + len(data) - 1) // bpc):
                crossed = True
            hd.pos += len(data)
            emit(["read", h, n], ("ok", data))
        elif r < 0.78:
            n = rng.choice([0, 1, 2, bpc - 1, bpc, bpc + 1, 2 * bpc, 2 * bpc + 5])
            data = bytes(rng.randrange(1, 256) for _ in range(n))
            if not hd.writing:
                emit(["write", h, data.hex()], ("err", "IOERR"))
                continue
            if hd.appending and n:        # an empty write issues no write at all: the position stays
                hd.pos = size
            if n and (hd.pos // bpc) != ((hd.pos + n - 1) // bpc):
                crossed = True
            hd.f.data[hd.pos:hd.pos + n] = data
            hd.pos += n
            emit(["write", h, data.hex()], ("ok", n))
        elif r < 0.86 and hd.writing:
            arg = rng.choice([None, 0, bpc, bpc - 1, 2 * bpc + 1, max(0, size - 1), size + bpc + 3, hd.pos, (hd.pos // bpc) * bpc, size + 2 * bpc + 1])
            new = hd.pos if arg is None else arg
            if new < size:
                del hd.f.data[new:]
            else:
                hd.f.data.extend(b"\0" * (new - size))
            emit(["truncate", h, arg], ("ok", new))
            if hd.pos > new:
                # position beyond EOF: the property excludes writing from there; re-seek on both sides
                hd.pos = new
                emit(["seek", h, new, 0], ("ok", new))
        elif r < 0.92:
            emit(["tell", h], ("ok", hd.pos))
        else:
            emit(["hclose", h], ("ok", None))
            del handles[h]
    for h in sorted(handles):
        emit(["hclose", h], ("ok", None))
    final = {n: (bytes(f.data) if f is not None else None) for n, f in files.items()}
    return ops, exp, final, crossed


def ref_run(ops):
    """the byte-buffer reference on a GIVEN program (valid programs only: every open succeeds or is expected to fail as below)"""
    files, handles, exp = {}, {}, []
    for op in ops:
        k = op[0]
        if k == "remove":           # (no handle of the file is open in the fixed programs)
            files[op[1]] = None
            exp.append(("ok", None))
            continue
        if k == "open":
            _, h, name, mode = op
            f = files.get(name)
            if f is None and mode in ("r", "r+"):
                exp.append(("err", "RNF"))
                continue
            if f is not None and "x" in mode:
                exp.append(("err", "FEXISTS"))
                continue
            if f is None:
                f = files[name] = RefFile()
            handles[h] = RefHandle(f, mode)
            exp.append(("ok", None))
            continue
        hd = handles[op[1]]
        size = len(hd.f.data)
        if k == "seek":
            off, wh = op[2], (op[3] if len(op) > 3 else 0)
            hd.pos = off if wh == 0 else hd.pos + off if wh == 1 else size + off
            exp.append(("ok", hd.pos))
        elif k == "tell":
            exp.append(("ok", hd.pos))
        elif k == "read":
            n = op[2]
            data = bytes(hd.f.data[hd.pos:] if n < 0 else hd.f.data[hd.pos:hd.pos + n])
            hd.pos += len(data)
            exp.append(("ok", data))
        elif k == "write":
            data = bytes.fromhex(op[2])
            if hd.appending and data:
                hd.pos = size
            hd.f.data[hd.pos:hd.pos + len(data)] = data
            hd.pos += len(data)
            exp.append(("ok", len(data)))
        elif k == "truncate":
            new = hd.pos if op[2] is None else op[2]
            if new < size:
                del hd.f.data[new:]
            else:
                hd.f.data.extend(b"\0" * (new - size))
            exp.append(("ok", new))
        elif k == "hclose":
            del handles[op[1]]
            exp.append(("ok", None))
    return exp, {n: (bytes(f.data) if f is not None else None) for n, f in files.items()}


def scripted(bpc):
    """fixed programs run before the random ones on every volume (minimised past misses)"""
    A, B = "/F0.BIN", "/F1.BIN"
    return [
        # truncate AT the current position, on a cluster multiple inside the file: the cursor must come back to the end of the last kept
        # cluster; then write (C02-m4: seek() returned early when the offset equals the position); with a neighbour taking the freed cluster
        [["open", "h1", A, "w+"], ["write", "h1", "41" * (3 * bpc)], ["seek", "h1", 2 * bpc, 0], ["truncate", "h1", None], ["tell", "h1"],
         ["open", "h2", B, "w"], ["write", "h2", "42" * (bpc + 3)], ["hclose", "h2"], ["write", "h1", "43" * 10], ["seek", "h1", 0, 0], ["read", "h1", -1],
         ["hclose", "h1"], ["open", "h3", B, "r"], ["read", "h3", -1], ["hclose", "h3"]],
        [["open", "h1", A, "w+"], ["write", "h1", "51" * (2 * bpc)], ["seek", "h1", bpc, 0], ["truncate", "h1", bpc], ["write", "h1", "52" * (bpc + 1)],
         ["seek", "h1", 0, 2], ["tell", "h1"], ["seek", "h1", 0, 0], ["read", "h1", -1], ["hclose", "h1"]],
        # tell / seek(0, 1) between writes, seek to the position already held
        [["open", "h1", A, "w+"], ["write", "h1", "61" * bpc], ["seek", "h1", bpc, 0], ["write", "h1", "62" * 5], ["seek", "h1", 0, 1], ["tell", "h1"],
         ["seek", "h1", bpc + 5, 0], ["write", "h1", "63" * bpc], ["seek", "h1", bpc, 0], ["read", "h1", 7], ["hclose", "h1"]],
        # fragmented free space: B between A and C is removed, A is extended in ONE write by more than the hole; C keeps its bytes
        # (C02-m1: a "contiguous fast path" that checks only the first new cluster for adjacency)
        [["open", "a", A, "w"], ["write", "a", "41" * bpc], ["hclose", "a"], ["open", "b", B, "w"], ["write", "b", "42" * bpc], ["hclose", "b"],
         ["open", "c", "/F2.BIN", "w"], ["write", "c", "43" * bpc], ["hclose", "c"], ["remove", B], ["open", "a2", A, "a"],
         ["write", "a2", "44" * (2 * bpc)], ["hclose", "a2"], ["open", "r", "/F2.BIN", "r"], ["read", "r", -1], ["hclose", "r"],
         ["open", "r2", A, "r"], ["read", "r2", -1], ["hclose", "r2"]],
        # read up to the END of a file whose size is an exact multiple of the cluster size - in one piece, cluster by cluster, and by an
        # exact count - and write straight away, no seek in between (only tell); then the same through r+ after re-opening (C02-m6: read()
        # kept its own cursor and left it on (last cluster, offset 0) where seek() holds (last cluster, offset = cluster size))
        [["open", "h1", A, "w+"], ["write", "h1", "71" * (2 * bpc)], ["seek", "h1", 0, 0], ["read", "h1", -1], ["write", "h1", "72" * 10], ["tell", "h1"],
         ["seek", "h1", 0, 0], ["read", "h1", -1], ["hclose", "h1"],
         ["open", "h2", B, "w"], ["write", "h2", "73" * (3 * bpc)], ["hclose", "h2"], ["open", "h3", B, "r+"], ["read", "h3", bpc], ["read", "h3", bpc],
         ["read", "h3", bpc], ["tell", "h3"], ["write", "h3", "74" * (bpc + 1)], ["tell", "h3"], ["seek", "h3", 0, 0], ["read", "h3", -1], ["hclose", "h3"],
         ["open", "h4", A, "r+"], ["read", "h4", 2 * bpc + 10], ["write", "h4", "75" * 3], ["seek", "h4", bpc, 0], ["read", "h4", bpc], ["write", "h4", "76"],
         ["seek", "h4", 0, 0], ["read", "h4", -1], ["hclose", "h4"]],
    ]


def run(ctx):
    vols = VOLS + (VOLS_T if ctx.tier == "thorough" else [])
    m = Model()
    built = {}
    try:
        for i in range(ctx.scale(40, 600) + len(vols) * len(scripted(512))):
            if ctx.time_left() < 10:
                break
            label, kw = vols[i % len(vols)]
            if label not in built:
                built[label] = garbage_volume(**kw)
            img, info = built[label]
            rng = random.Random(ctx.rng.randrange(1 << 62))
            sp = scripted(info["bpc"])
            if i < len(vols) * len(sp):           # every scripted program on every volume first
                ops = sp[i // len(vols)]
                exp, final = ref_run(ops)
                crossed = True
                ctx.dist["scripted"] += 1
            else:
                ops, exp, final, crossed = gen_and_expect(rng, info["bpc"], ctx.scale(50, 120))
            meta = dict(source="build+garbage", **kw)
            rep = dict(volume=meta, volume_label=label, ops=[o if o[0] != "write" else ["write", o[1], o[2]] for o in ops])
            ctx.evaluations += 1
            state = {"bad": None}
            files_now = {}

            def on_step(k, op, ires, ir):
                ctx.dist[op[0]] += 1
                want = exp[k]
                got = (ires[0], ires[1])
                if want[0] == "ok" and op[0] == "read":
                    want = ("ok", want[1])
                if state["bad"] is None and (got[0] != want[0] or (got[0] == "ok" and core.canon(got[1]) != core.canon(want[1]))
                                             or (got[0] == "err" and got[1] != want[1])):
                    state["bad"] = (k, op, core.canon(list(got)), core.canon(list(want)))
            # the volume at an offset of its device in three runs of five — a cluster or two, or the classic 63 sectors: positions of the DEVICE and addresses
            # in the VOLUME differ by it (C02-m10: "skip the redundant seek" compared the device position with the volume address — the
            # cluster one or two further on was read when a chain advanced by just that much, as interleaved writes make it)
            off = [0, info["bpc"], 0, 63 * 512, 2 * info["bpc"]][(i // len(vols) + i % len(vols)) % 5]
            ctx.dist[f"offset:{'0' if not off else 'bpc' if off == info['bpc'] else '2bpc' if off == 2 * info['bpc'] else off}"] += 1
            rep["mount_offset"] = off
            r = tie.run_program(img, ops, mount=dict(encoding="ibm437", offset=off), model=m, on_step=on_step)
            ctx.traces += 1
            if state["bad"]:
                k, op, got, want = state["bad"]
                ctx.violation(f"{label}: op {k} {str(op)[:80]}: FatIO gives {str(got)[:100]}, the byte buffer gives {str(want)[:100]}",
                              f"handle:{op[0]}:{got[0]}:{want[0]}:{ops[max(0, k - 1)][0]}", dict(rep, at=k))
            elif r["disagreement"]:
                ctx.tie_break(f"{label}: model and implementation disagree at {r['disagreement'].get('at')}", dict(disagreement=r["disagreement"], case=rep))
            # final contents through the interface, then the closed image through the independent reader
            ir = r["impl"]
            if state["bad"] is None and ir.fs is not None:
                for name, data in final.items():
                    res, _ = ir.op(["readbytes", name])
                    want = ("ok", data) if data is not None else ("err", "RNF")
                    if core.canon(list(res)) != core.canon(list(want)):
                        ctx.violation(f"{label}: final contents of {name} differ from the byte buffer (len {len(res[1]) if res[0] == 'ok' else res} vs {len(data) if data is not None else None})",
                                      "final-content", rep)
                        break
                ir.op(["closefs"])
                fnd = fatspec.fsck(ir.dev.volume(), img, "ibm437", force_ft=history.force_ft(dict(source="build", **kw)))
                if fnd:
                    ctx.violation(f"{label}: closed image after handle program is inconsistent: {fnd[0]}", "final-fsck:" + history.classify_finding(fnd[0]), dict(rep, findings=fnd[:5]))
            if crossed:
                ctx.nontrivial.add((label, tuple((o[0], o[2] if o[0] in ("seek", "read", "truncate") else 0) for o in ops)))
            ctx.sample(dict(volume=label, bytes_per_cluster=info["bpc"], ops=[o if o[0] != "write" else ["write", o[1], f"<{len(o[2]) // 2} bytes>"] for o in ops[:14]]))
    finally:
        m.close()


def extra_search(ctx):
    run(ctx)
