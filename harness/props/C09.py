"""C09 — a failed operation changes nothing and does not wedge the filesystem."""
import random
import warnings

from .. import core, fatspec, history, gen
from ..core import ImplRun, Model, ScriptedClock, clock_tuple
from . import _hist

LEVEL_NOTE = ("theorem: every model operation that returns Err leaves the model state untouched (the driver discards it by construction; "
              "C09_* lemmas show the error kinds); the implementation is tied by write logs and judged by tree / fsck / follow-up oracles")
TRUSTED = ["Coq 8.16.1 kernel", "tools/translate.py", "extraction + ocaml/driver.ml", "harness/fatspec.py fsck",
           "failure causes are triggered by generated near-full volumes, tiny roots and limit arguments, not by fault injection into Python"]
RULE = ("failure programs: volumes filled to 0..3 free clusters, root directories with 16/32 slots filled to 0..4 free slots, then every mutating "
        "call that needs k clusters / slots for k around the remaining capacity; E2BIG, over-long and NUL names, out-of-range timestamps, "
        "wrong-type / missing / existing targets, read-only mounts; after each failing call: error class, live tree, snapshot fsck, remount "
        "tree, and follow-up operations.  non-trivial = a case with >= 1 failing mutating call; distinct = (volume, failing op kind, error, free clusters)")


def tree_sig(w):
    return {p: (t[0],) if t[0] == "d" else (t[0], t[1], core.hashlib.md5(t[2]).hexdigest()) for p, t in w.items()}


def stamps(ir, w):
    """the raw date / time fields of every entry (what getinfo reports is derived from them)"""
    out = {}
    for p in w:
        try:
            e = ir.fs.fs.root_dir.get_entry(p)
            out[p] = (e.crtdate, e.crttime, e.wrtdate, e.wrttime, e.lstaccessdate)
        except Exception as ex:  # noqa
            out[p] = ("unreadable", type(ex).__name__)
    return out


def check_failure(ctx, label, ir, op, res, before, before_img, meta, enc, ops_so_far, before_stamps=None):
    rep = dict(volume=meta, volume_label=label, ops=ops_so_far, failing_op=op)
    err = res[1]
    if str(err).startswith("INTERNAL"):
        ctx.violation(f"{label}: {op[:3]} failed with internal exception {err}", f"fail-internal:{err}:{op[0]}", rep)
    try:
        after = tree_sig(ir.walk())
    except Exception as e:  # noqa
        ctx.violation(f"{label}: after failed {op[:3]} ({err}) the tree cannot be walked: {type(e).__name__}: {e}", f"fail-wedged:{op[0]}:{err}", rep)
        return False
    if after != before:
        d = sorted(set(after.items()) ^ set(before.items()))[:3]
        ctx.violation(f"{label}: failed {op[:2]} ({err}) changed the visible tree: {d[0][0]!r}", f"fail-tree-changed:{op[0]}:{err}", dict(rep, diff=str(d)))
        return False
    if before_stamps is not None:
        now = stamps(ir, after)
        ch = sorted(p for p in now if now[p] != before_stamps.get(p))
        if ch:
            ctx.violation(f"{label}: failed {op[:2]} ({err}) changed the timestamps of {ch[0]!r}: {before_stamps.get(ch[0])} -> {now[ch[0]]}",
                          f"fail-stamps-changed:{op[0]}:{err}", dict(rep, changed=ch[:5]))
            return False
    img = ir.dev.volume()
    fnd = fatspec.fsck(img, before_img, enc, force_ft=history.force_ft(meta))
    if fnd:
        ctx.violation(f"{label}: after failed {op[:2]} ({err}) the device image is inconsistent: {fnd[0]}", f"fail-fsck:{op[0]}:{err}:{history.classify_finding(fnd[0])}",
                      dict(rep, findings=fnd[:6]))
        return False
    try:
        rw, _ = history.remount_walk(img, 0, enc, True)
        if tree_sig(rw) != before:
            ctx.violation(f"{label}: after failed {op[:2]} ({err}) a remount shows a different tree", f"fail-remount:{op[0]}:{err}", rep)
            return False
    except Exception as e:  # noqa
        ctx.violation(f"{label}: after failed {op[:2]} ({err}) the snapshot cannot be remounted: {e}", f"fail-remount-raises:{op[0]}", rep)
        return False
    return True


def fill_volume(ir, rng, leave, bpc, clk):
    """write files until `leave` clusters are free (measured by trying)"""
    i = 0
    ops = []
    while True:
        i += 1
        name = f"/FILL{i:03d}.BIN"
        n = rng.choice([1, 2, 3]) * bpc
        op1, op2, op3 = ["open", f"x{i}", name, "w"], ["write", f"x{i}", (bytes([i & 255]) * n).hex()], ["hclose", f"x{i}"]
        r1, _ = ir.op(op1)
        if r1[0] != "ok":
            break
        r2, _ = ir.op(op2)
        ir.op(op3)
        ops += [op1, [op2[0], op2[1], f"<{n} bytes>"], op3]
        if r2[0] != "ok":
            ir.op(["remove", name])
            ops.append(["remove", name])
            break
        if i > 2000:
            break
    # free exactly `leave` clusters again
    for k in range(leave):
        name = f"/FILL{max(1, i - 1 - k):03d}.BIN"
    return ops


def free_clusters(ir):
    pf = ir.fs.fs
    tot = pf._get_total_sectors() - pf.first_data_sector
    maxc = tot // pf.bpb_header["BPB_SecPerClus"] + 1
    return sum(1 for c in range(2, min(maxc + 1, len(pf.fat))) if pf.fat[c] == 0)


def wrapped_chain_cases(ctx):
    """'removing entries to make room' after ENOSPC, for a file whose chain does NOT start at its lowest cluster (C09-m10: the allocation hint
    followed only the head of a released chain): A, X written, A removed, X grown into A's clusters, the volume filled until a write is refused,
    X removed - a write of exactly as many clusters as are free now has to succeed."""
    for label, kw in [("build12-c14-r16", dict(ft=12, clusters=14, rootent=16, spc=1)), ("build16-c4090", dict(ft=16, clusters=4090, rootent=32, spc=1)),
                      ("build32-c24", dict(ft=32, clusters=24, spc=1))]:
        for lazy in (False, True):
            img, info = fatspec.build(**kw)
            meta = dict(source="build", **kw)
            bpc = info["bpc"]
            ir = ImplRun(img, encoding="ibm437", lazy_load=lazy)
            done = []

            def do(op):
                r, _ = ir.op(op)
                done.append(op if op[0] != "write" else ["write", op[1], f"<{len(op[2]) // 2} bytes>"])
                return r
            with ScriptedClock():
                if ir.mount()[0][0] != "ok":
                    continue
                ctx.evaluations += 1
                big = kw["clusters"] > 1000
                for nm, h, mode, k, ch in [("/A.BIN", "a", "w", 3, b"a"), ("/X.BIN", "x", "w", 2, b"x")]:
                    do(["open", h, nm, mode]); do(["write", h, (ch * (k * bpc)).hex()]); do(["hclose", h])
                do(["remove", "/A.BIN"])
                do(["open", "x2", "/X.BIN", "a"]); do(["write", "x2", (b"y" * (3 * bpc)).hex()]); do(["hclose", "x2"])
                do(["create", "/NEW.BIN"])
                do(["open", "f", "/FILL.BIN", "w"])
                if big:
                    do(["write", "f", (b"f" * ((free_clusters(ir) - 1) * bpc)).hex()])
                r = ("ok", None)
                for _ in range(64):
                    w0 = ir.walk()
                    before, before_img = tree_sig(w0), ir.dev.volume()
                    op = ["write", "f", (b"f" * bpc).hex()]
                    r = do(op)
                    if r[0] != "ok":
                        break
                do(["hclose", "f"])
                if r[0] == "ok":
                    ctx.tie_break(f"{label}: the volume never became full", dict(volume=meta))
                    continue
                ctx.nontrivial.add((label, "write", str(r[1]), 0))
                rep = dict(volume=meta, ops=done[-24:])
                r1 = do(["remove", "/X.BIN"])
                free = free_clusters(ir)
                r2 = do(["open", "n", "/NEW.BIN", "r+"])
                r3 = do(["write", "n", (b"n" * (free * bpc)).hex()]) if r2[0] == "ok" else ("skip", None)
                do(["hclose", "n"])
                if r1[0] != "ok" or r2[0] != "ok" or r3[0] != "ok":
                    ctx.violation(f"{label}: the volume was full (write refused: {r[1]}); after removing /X.BIN (5 clusters, chain not starting at its lowest cluster) "
                                  f"{free} clusters are free, but a write of {free} clusters does not succeed: {r1} {r2} {r3}",
                                  f"followup-refused:room-made:{r3[1]}", dict(rep, ops=done[-28:]))
                    continue
                got = ir.op(["readbytes", "/NEW.BIN"])[0]
                if got[0] != "ok" or got[1] != b"n" * (free * bpc):
                    ctx.violation(f"{label}: /NEW.BIN written into the room made does not read back ({got[0]})", "followup-readback:room-made", rep)
                    continue
                ir.op(["closefs"])
                fnd = fatspec.fsck(ir.dev.volume(), img, "ibm437", force_ft=history.force_ft(meta))
                if fnd:
                    ctx.violation(f"{label}: closed image after refilling the room made is inconsistent: {fnd[0]}", "final-fsck:" + history.classify_finding(fnd[0]),
                                  dict(rep, findings=fnd[:6]))


def run(ctx):
    rng = ctx.rng
    n = 0
    wrapped_chain_cases(ctx)
    vols = [("build12-c14-r16", dict(ft=12, clusters=14, rootent=16, spc=1)), ("build12-c20-r32-spc2", dict(ft=12, clusters=20, rootent=32, spc=2)),
            ("build16-tinyroot", dict(ft=16, clusters=4090, rootent=16, spc=1)), ("build32-c24", dict(ft=32, clusters=24, spc=1))]
    for rep in range(ctx.scale(3, 30)):
        for label, kw in vols:
            if ctx.time_left() < 0:
                break
            img, info = fatspec.build(**kw)
            meta = dict(source="build", **kw)
            enc = "ibm437"
            ir = ImplRun(img, encoding=enc, lazy_load=bool(rep % 2))
            with ScriptedClock() as clk:
                res, _ = ir.mount()
                if res[0] != "ok":
                    ctx.violation(f"{label}: mount failed {res}", "mount-failed", dict(volume=meta))
                    continue
                bpc = info["bpc"]
                done = []
                # a little structure, then fill
                for op in [["makedir", "/D"], ["makedir", "/D/E"], ["open", "k", "/D/keep.txt", "w"], ["write", "k", (b"K" * (bpc + 7)).hex()], ["hclose", "k"]]:
                    ir.op(op)
                    done.append(op)
                leave = rng.choice([0, 1, 2, 3])
                if kw.get("clusters", 0) < 1000:
                    i = 0
                    while free_clusters(ir) > leave and i < 500:
                        i += 1
                        take = min(free_clusters(ir) - leave, rng.choice([1, 2, 3]))
                        ops3 = [["open", f"x{i}", f"/D/E/F{i:03d}.BIN", "w"], ["write", f"x{i}", (bytes([i & 255]) * (take * bpc)).hex()], ["hclose", f"x{i}"]]
                        for op in ops3:
                            r, _ = ir.op(op)
                        done += [ops3[0], ["write", f"x{i}", f"<{take * bpc} bytes of {i & 255:#x}>"], ops3[2]]
                else:
                    # tiny root on a big volume: fill root slots instead
                    i = 0
                    while i < 40:
                        i += 1
                        nm = f"/R{i:02d}.TXT" if (i % 2 or rep % 2) else f"/R{i:02d} long name in the root.TXT"     # long names: slots, not entries, fill the root
                        r, _ = ir.op(["create", nm])
                        done.append(["create", nm])
                        if r[0] != "ok":
                            break
                free = free_clusters(ir)
                cand = [
                    ["makedir", "/D/newdir"], ["makedir", "/newdir with a long name needing slots"], ["create", "/D/a rather long file name needing three slots.txt"],
                    ["open", "w1", "/D/new.bin", "w"], ["open", "w2", "/D/keep.txt", "a"], ["open", "w3", "/D/keep.txt", "r+"], ["create", "/T1.TXT"], ["makedir", "/M1"],
                    ["create", "/" + "n" * 300], ["makedir", "/" + "m" * 256], ["create", "/bad\0name"], ["create", "/nodir/x.txt"], ["makedir", "/D"],
                    ["remove", "/D"], ["removedir", "/D"], ["removedir", "/D/keep.txt"], ["remove", "/missing"], ["create", "/D"], ["makedir", "/D/keep.txt"],
                    ["setinfo", "/D/keep.txt", None, 100, None, None, (1970, 1, 1, 0, 1, 40), None],
                    ["setinfo", "/D/keep.txt", 4386182400 + 86400 * 400, None, None, (2110, 1, 1, 0, 0, 0), None, None],
                    # several fields in one call, a LATER one out of range: the earlier ones must not be taken over (C09-m4)
                    ["setinfo", "/D/keep.txt", 1286668800, 1286668800, 170000000, (2010, 10, 10, 0, 0, 0), (2010, 10, 10, 0, 0, 0), (1975, 5, 22, 0, 0, 0)],
                    ["setinfo", "/D/keep.txt", 1286668800, 4386182400 + 86400 * 400, None, (2010, 10, 10, 0, 0, 0), (2110, 1, 1, 0, 0, 0), None],
                    ["removetree", "/D/keep.txt"], ["listdir", "/D/keep.txt"], ["listdir", "/nodir"], ["open", "r1", "/D", "r"], ["open", "r2", "/none", "r"],
                    ["open", "x1", "/D/keep.txt", "x"],
                ]
                rng.shuffle(cand)
                cand.sort(key=lambda o: 0 if (o[0] == "setinfo" and sum(x is not None for x in o[2:5]) > 1) else 1)     # the mixed setinfo calls always run
                for op in cand[:ctx.scale(14, 26)]:
                    ctx.evaluations += 1
                    w0 = ir.walk()
                    before = tree_sig(w0)
                    before_st = stamps(ir, w0)
                    before_img = ir.dev.volume()
                    clk.t = clock_tuple(len(done) + 1)
                    r, _ = ir.op(op)
                    extra = []
                    if op[0] == "open" and r[0] == "ok":
                        h = op[1]
                        if "w" in op[3] or "a" in op[3] or "+" in op[3]:
                            opened = tree_sig(ir.walk())         # the tree once the handle is open (a new / emptied file is there)
                            changed_by_success = False
                            free_now = free_clusters(ir)
                            # r+: from the START of the file, over everything it has and further than the volume has room for — what is refused
                            # must not have overwritten the clusters the file already owns (C09-m8)
                            have = (ir.op(["getsize", op[2]])[0][1] if "+" in op[3] and "w" not in op[3] else 0) or 0
                            wop = ["write", h, (b"W" * ((free_now + 1) * bpc + (have + bpc - 1) // bpc * bpc)).hex()]
                            r2, _ = ir.op(wop)
                            extra.append((wop, r2))
                            if r2[0] == "err" and free_now >= 2:
                                # the refused request must not spoil a smaller one that fits
                                wop2 = ["write", h, (b"w" * bpc).hex()]
                                r2b, _ = ir.op(wop2)
                                changed_by_success = r2b[0] == "ok"
                                if r2b[0] == "err":
                                    ctx.violation(f"{label}: after a write of {free_now + 1} clusters was refused (ENOSPC, {free_now} free), a 1-cluster write is refused too: {r2b[1]}",
                                                  f"followup-refused:write:{r2b[1]}", dict(volume=meta, ops=[o[:3] if o[0] != 'write' else [o[0], o[1], '<data>'] for o in done[-20:]] + [op, wop[:2], wop2[:2]]))
                            top = ["truncate", h, 2 ** 32 + 5]
                            r3, _ = ir.op(top)
                            extra.append((top, r3))
                            ir.op(["hclose", h])
                            # a write and a truncate through the handle were both refused, nothing else succeeded: sizes and contents are
                            # exactly what they were when the handle was opened, and everything can still be read (C09-m6)
                            if r2[0] == "err" and r3[0] == "err" and not changed_by_success:
                                rep_h = dict(volume=meta, ops=[o[:3] if o[0] != 'write' else [o[0], o[1], '<data>'] for o in done[-20:]] + [op, wop[:2], top])
                                try:
                                    closed_sig = tree_sig(ir.walk())
                                except Exception as e:  # noqa
                                    ctx.violation(f"{label}: after a refused write ({r2[1]}) and truncate ({r3[1]}) through {op[2]!r} the tree cannot be read: {type(e).__name__}: {e}",
                                                  f"fail-wedged:write:{r2[1]}", rep_h)
                                    break
                                if closed_sig != opened:
                                    dd = sorted(set(closed_sig.items()) ^ set(opened.items()))[:3]
                                    ctx.violation(f"{label}: a refused write ({r2[1]}) and truncate ({r3[1]}) through {op[2]!r} changed the visible tree: {dd[0][0]!r}",
                                                  f"fail-tree-changed:write:{r2[1]}", dict(rep_h, diff=str(dd)))
                                    break
                        if h in ir.handles:
                            ir.op(["hclose", h])
                    shown = [o if o[0] != "write" else ["write", o[1], f"<{len(o[2]) // 2} bytes>"] for o in done[-40:]] + [op]
                    ctx.dist[f"{op[0]}:{r[1] if r[0] == 'err' else 'ok'}"] += 1
                    if r[0] == "err":
                        if op[0] not in ("listdir",):
                            ctx.nontrivial.add((label, op[0], str(r[1]), free))
                        ok = check_failure(ctx, label, ir, op, r, before, before_img, meta, enc, shown, before_st)
                        if not ok:
                            break
                    for wop, r2 in extra:
                        if r2[0] == "err":
                            ctx.dist[f"{wop[0]}:{r2[1]}"] += 1
                            ctx.nontrivial.add((label, wop[0], str(r2[1]), free))
                            if str(r2[1]).startswith("INTERNAL"):
                                ctx.violation(f"{label}: {wop[0]} failed with {r2[1]}", f"fail-internal:{r2[1]}:{wop[0]}", dict(volume=meta, ops=shown + [wop[:2]]))
                            # a failed write / truncate must leave every OTHER file and the image sound
                            img = ir.dev.volume()
                            fnd = fatspec.fsck(img, before_img, enc, force_ft=history.force_ft(meta))
                            if fnd:
                                ctx.violation(f"{label}: after failed {wop[0]} ({r2[1]}) the image is inconsistent: {fnd[0]}",
                                              f"fail-fsck:{wop[0]}:{r2[1]}:{history.classify_finding(fnd[0])}", dict(volume=meta, ops=shown + [wop[:2]], findings=fnd[:5]))
                    done.append(op)
                # follow-up: make room, then a valid operation must succeed
                ctx.evaluations += 1
                r, _ = ir.op(["removetree", "/D/E"])
                r2, _ = ir.op(["makedir", "/after"])
                r3, _ = ir.op(["open", "z", "/after/ok.bin", "w"])
                r4, _ = ir.op(["write", "z", (b"Z" * bpc).hex()]) if r3[0] == "ok" else (("skip", None), None)
                ir.op(["hclose", "z"])
                if kw.get("clusters", 0) < 1000 and (r[0] != "ok" or r2[0] != "ok" or r3[0] != "ok" or r4[0] != "ok"):
                    ctx.violation(f"{label}: after the failures, making room and a valid makedir/write did not succeed: {r} {r2} {r3} {r4}",
                                  f"followup-failed:{[x[1] for x in (r, r2, r3, r4) if x[0] == 'err'][:1]}", dict(volume=meta, ops=[o[:3] for o in done[-30:]]))
                ir.op(["closefs"])
                fnd = fatspec.fsck(ir.dev.volume(), img, enc, force_ft=history.force_ft(meta))
                if fnd:
                    ctx.violation(f"{label}: closed image after failure program is inconsistent: {fnd[0]}", "final-fsck:" + history.classify_finding(fnd[0]),
                                  dict(volume=meta, ops=[o[:3] for o in done[-30:]], findings=fnd[:6]))
                ctx.sample(dict(volume=label, free_clusters_before_failures=free, failing_candidates=[c[:2] for c in cand[:6]]))
    # the read-only cause: every mutating call on a read-only mount fails, and the tree it shows is exactly what it was (C09-m7: a refused removal
    # dropped the entry from the in-memory list for the rest of the mount)
    from . import C10
    for label, thunk in [v for v in gen.volumes(ctx.tier) if v[0] in ("mkfs12-64k", "build32-tiny", "build16-4100")]:
        if ctx.time_left() < 10:
            break
        rng2 = random.Random(ctx.rng.randrange(1 << 62))
        img_ro, meta_ro = C10.populated(label, thunk, rng2)
        ir = ImplRun(img_ro, read_only=True)
        with ScriptedClock() as clk:
            res, _ = ir.mount()
            if res[0] != "ok":
                continue
            w0 = ir.walk()
            before = tree_sig(w0)
            files = sorted(p for p, t in w0.items() if t[0] == "f")
            dirs = sorted(p for p, t in w0.items() if t[0] == "d")
            cand = [["remove", f] for f in files[:3]] + [["removedir", d] for d in dirs[:2]] + [["removetree", d] for d in dirs[:2]] + \
                   [["create", "/ro new.txt"], ["makedir", "/ro new dir"], ["create", files[0], 1] if files else ["create", "/x", 1],
                    ["setinfo", files[0] if files else "/x", 1704067200, 1704067300, None, (2024, 1, 1, 0, 0, 0), (2024, 1, 1, 0, 1, 40), None],
                    # through handles: re-opening a file of several clusters for writing, shrinking it through r+ (C09-m9: the chain was cut in
                    # memory before the guarded call raised)
                    ["open", "m1", "/MULTI.BIN", "w"], ["open", "m2", "/MULTI.BIN", "r+"], ["truncate", "m2", 700], ["write", "m2", "4d4d"], ["hclose", "m2"]]
            for k, op in enumerate(cand):
                ctx.evaluations += 1
                clk.t = clock_tuple(k + 1)
                r, _ = ir.op(op)
                ctx.dist[f"ro:{op[0]}:{r[1] if r[0] == 'err' else 'ok'}"] += 1
                rep = dict(volume=meta_ro, volume_label=label, mount=dict(read_only=True), ops=[op])
                if r[0] == "ok" and not (op[0] == "create" and r[1] is False):
                    continue        # (accepting a mutation on a read-only mount is C10's finding)
                ctx.nontrivial.add((label, "ro", op[0], str(r[1])))
                try:
                    after = tree_sig(ir.walk())
                except Exception as e:  # noqa
                    ctx.violation(f"{label}: after {op[:2]} was refused on the read-only mount the tree cannot be read: {type(e).__name__}: {e}", f"fail-wedged:{op[0]}:ro", rep)
                    break
                if after != before:
                    dd = sorted(set(after.items()) ^ set(before.items()))[:3]
                    ctx.violation(f"{label}: {op[:2]}, refused on the read-only mount ({r[1]}), changed the visible tree: {dd[0][0]!r}", f"fail-tree-changed:{op[0]}:ro", dict(rep, diff=str(dd)))
                    break
    # the model side of the tie: ordinary histories on nearly-full volumes (errors included) must agree write for write
    _hist.run_histories(ctx, ("internal",), nprog=ctx.scale(8, 60), nops=ctx.scale(40, 80),
                        vol_filter=lambda l: l in ("mkfs12-64k", "build12-full-fat", "build32-tiny", "build12-spc2-nf1"))


def extra_search(ctx):
    run(ctx)
