"""C15 — every legal file name can be created, found again and lists unchanged."""
import random
import warnings

from .. import core, fatspec, gen, history
from ..core import ImplRun, Model, ScriptedClock, clock_tuple, enc_name, hx
from . import _hist
from pyfatfs.EightDotThree import EightDotThree
from pyfatfs.FATDirectoryEntry import make_lfn_entry

LEVEL_NOTE = ("theorems: lfn_units (make_lfn u sfn) = u for every name of 1..255 UTF-16 units, slot count, ordinals, checksum and padding of the "
              "generated set; the alias loop returns a name not among the taken ones; tie: make_lfn / alias / create through the real functions")
TRUSTED = ["Coq 8.16.1 kernel", "tools/translate.py (INVALID_CHARACTERS, layouts, checksum)", "extraction + driver",
           "str.upper / os.path.splitext / codecs are Python's: the name record passed to the model is computed with them"]
RULE = ("names: every length 1..255 (ASCII and mixed alphabets), every multiple of 13 +-1, embedded spaces and dots, leading dots and spaces (names with no usable stem), upper / lower / mixed "
        "case, characters outside the OEM page, non-BMP characters (also straddling slot boundaries), alias collisions to 3-digit tails; x ibm437, cp850, "
        "cp866, cp1252 x preserve_case; each name is created (file or directory), looked up by the name given, listed, looked up after remount, and "
        "every earlier name must stay reachable.  non-trivial = name needing a long-name set; distinct = by (name, code page, case mode)")

BAD = set('\\/:*?"<>|') | {chr(i) for i in range(32)}


def legal_names(rng, enc, n_random):
    out = []
    alpha = "abcdefghijklmnopqrstuvwxyzABCDEFGHIJKLMNOPQRSTUVWXYZ0123456789_-"
    for L in list(range(1, 40)) + [51, 52, 53, 64, 65, 66, 77, 78, 79, 90, 91, 92, 103, 104, 105, 116, 117, 118, 126, 127, 128, 129, 130, 142, 143, 144,
                                   155, 156, 157, 194, 195, 196, 207, 208, 209, 220, 221, 222, 233, 234, 235, 246, 247, 248, 253, 254, 255]:
        out.append("".join(rng.choice(alpha) for _ in range(L)))
    out += ["A B.TXT", "MY DIR", "a b c", ".hidden", "..double", "two..dots", "x.y.z.w", "UPPER.TXT", "lower.txt", "Mixed.Case", "trailing.x y",
            "with+plus", "semi;colon", "eq=ual", "br[ack]et", "comma,name", "tilde~1.txt", "LONGFI~1.TXT", "ABCDEFGH.IJK", "ABCDEFGHI.TXT", "A.TXTX",
            "Ünïcödé.dat", "ÅÄÖ.TXT", "naïve café.txt", "日本語.txt", "αβγδ.doc", "Ж" * 14 + ".ю", "😀.bin", "abcdefghijkl😀.txt", "abcdefghijk😀x.txt",
            "mixé😀é.x", "Maßstäbe.txt", "Straßenverzeichnis", "messwerte.maß", "ﬁnal.ﬂ", "İstanbul.txt", "ǆ.txt", "a" * 12 + "😀" * 6, "😀" * 127]
    # characters that count as lower-case letters but have NO upper-case form (ordinal indicators, superscript n): nothing to fold, they stay
    # what they are in the alias as in the name (C15-m10: "has a lower-case character" decided by str.islower)
    out += ["1º.txt", "2ª via.pdf", "Nº 5.DOC", "ANEXO Nº", "xⁿ.txt", "Nº"]
    # names without a usable stem in the first 8 characters (D37): spaces (and dots) only before the last dot, 8 and more leading spaces
    out += [" .a", " .b", "  .txt", " .   c", ". .d", " . .e", " ..f", "         x", "         y.txt", "        .z", " lead", "  .lead two.x"]
    # names that differ only in case, none of them all upper-case: every one is a name of its own (long names compare exactly),
    # the first takes the plain 8.3 alias and the later ones must get a numbered one
    out += ["Readme.txt", "readme.txt", "rEADME.TXT", "Notes", "notes", "foo.d", "Foo.d", "fOO.D"]
    for i in range(1, 14):
        out.append(f"collide long name {i:02d}.txt")
    for _ in range(n_random):
        L = rng.choice([1, 2, 8, 12, 13, 14, 25, 26, 27, 60, 120, 200, 255])
        chars = "".join(rng.choice(alpha + " ." + "éüñßÆøЖяλ日本😀") for _ in range(L))
        out.append(chars)
    good = []
    for n in out:
        n = n.rstrip(" .")
        if not n or any(c in BAD for c in n) or len(n.encode("utf-16-le")) // 2 > 255 or n in (".", ".."):
            continue
        good.append(n)
    return good


def run(ctx):
    m = Model()
    try:
        combos = [("ibm437", True), ("cp850", True), ("ibm437", False), ("cp866", True), ("cp1252", True)]
        if ctx.tier == "quick":
            combos = combos[:3]
        for enc, pc in combos:
            rng = random.Random(ctx.rng.randrange(1 << 62))
            names = legal_names(rng, enc, ctx.scale(40, 600))
            names = [n for n in names if not _hist.quarantined_name(n, enc)]
            # names equal ignoring case to an earlier one: with case preservation two spellings that both differ from their upper-case
            # form are two names (long names compare exactly); an all-upper spelling is the 8.3 alias of the others and is dropped, and
            # without case preservation all spellings of an 8.3 name are one name
            seen, uniq = {}, []
            for n in names:
                u = n.upper()
                if u in seen:
                    if not pc or n == u or n in seen[u] or any(e == u for e in seen[u]):
                        continue
                    seen[u].append(n)
                    uniq.append(n)
                    continue
                seen[u] = [n]
                uniq.append(n)
            # function level: make_lfn_entry vs the model's make_lfn, is_8dot3 etc.
            for n in uniq:
                ctx.evaluations += 1
                sfn = EightDotThree(encoding=enc)
                try:
                    sfn.set_str_name("AAAAAA~1.TXT")
                    le = make_lfn_entry(n, sfn)
                    back = str(le)
                    nslots = len(le.lfn_entries)
                    raw = bytes(le)
                except Exception as e:  # noqa
                    if EightDotThree.is_8dot3_conform(n, enc) and n == "AAAAAA~1.TXT":
                        continue
                    ctx.violation(f"[{enc}] make_lfn_entry({n[:40]!r}, len {len(n)}) raised {type(e).__name__}: {e}", f"lfn-raises:{type(e).__name__}", dict(name=n, encoding=enc))
                    continue
                units = len(n.encode("utf-16-le")) // 2
                if back != n:
                    ctx.violation(f"[{enc}] long name {n[:40]!r} ({units} units) decodes back as {back[:40]!r}", "lfn-roundtrip", dict(name=n, encoding=enc))
                if nslots != (units + 12) // 13:
                    ctx.violation(f"[{enc}] long name of {units} units stored in {nslots} slots, expected {(units + 12) // 13}", "lfn-slot-count", dict(name=n, encoding=enc))
                fnd = []
                slots = [raw[i:i + 32] for i in range(0, len(raw), 32)]
                if fatspec.Volume._lfn(slots, bytes(sfn.name), fnd.append) != n:
                    ctx.violation(f"[{enc}] long-name set of {n[:40]!r} is not valid per the specification: {fnd[:1]}", "lfn-spec", dict(name=n, encoding=enc))
                ws, r = m.cmd(f"f.make_lfn {hx(n.encode('utf-16-le', 'surrogatepass'))} {bytes(sfn.name).hex()}")
                ctx.traces += 1
                if r is not None and r != f"ok {raw.hex()} {hx(n.encode('utf-16-le'))}":
                    ctx.tie_break("Dir.make_lfn vs make_lfn_entry", dict(name=n, encoding=enc))
                if units > 11:
                    ctx.nontrivial.add((n, enc, pc))
            # function level: the alias generator against the model's make_8dot3, for every name and directories in which the plain alias and
            # growing runs of numbered aliases (up to three-digit tails) are already taken
            if enc in ("ibm437", "cp850", "cp866"):
                class _Ent:
                    def __init__(self, sn):
                        self.sn = sn

                    def get_short_name(self):
                        return self.sn

                class _Parent:
                    _encoding = enc

                    def __init__(self, names):
                        self.names = names

                    def get_entries(self):
                        return [], [_Ent(x) for x in self.names], []

                def stored(alias):
                    e = EightDotThree(encoding=enc)
                    e.set_str_name(alias)
                    return bytes(e.name).hex()
                for n in uniq[:ctx.scale(120, 100000)]:
                    taken = []
                    for rounds in (0, 1, 3, 11, 101):
                        try:
                            while len(taken) < rounds:
                                taken.append(EightDotThree.make_8dot3_name(n, _Parent(list(taken))))
                            got = EightDotThree.make_8dot3_name(n, _Parent(list(taken)))
                            tk = "|".join(stored(a) for a in taken) or "."
                        except Exception as e:  # noqa  (names the generator cannot alias are reported by the history level)
                            break
                        ws, r = m.cmd(f"f.alias {enc_name(n, enc)} {tk}")
                        ctx.traces += 1
                        ctx.dist["alias-tie"] += 1
                        if r is None:
                            continue
                        want = None
                        if r.startswith("ok"):
                            t = r.split()
                            b, x = bytes.fromhex(t[1] if t[1] != "." else ""), bytes.fromhex(t[2] if len(t) > 2 and t[2] != "." else "")
                            want = b.decode(enc, "replace") + ("." + x.decode(enc, "replace") if x else "")
                        if want != got:
                            ctx.tie_break("Dir.make_8dot3 vs make_8dot3_name", dict(name=n, encoding=enc, taken=len(taken), impl=got, model=r))
                            break
                        if got in taken:
                            ctx.violation(f"[{enc}] alias {got!r} generated for {n[:40]!r} is already a short name of the directory", "alias-not-fresh", dict(name=n, encoding=enc, taken=taken[:5]))
                            break
            # history level: create each name, look it up, list it; in chunks so that directories grow over clusters
            label = "build16-names"
            img, info = fatspec.build(16, clusters=4300, spc=1, rootent=512)
            meta = dict(source="build", ft=16, clusters=4300, spc=1, rootent=512)
            chunk = ctx.scale(40, 80)
            for c0 in range(0, len(uniq), chunk):
                if ctx.time_left() < 10:
                    break
                part = uniq[c0:c0 + chunk]

                # a name that is itself a valid upper-case 8.3 name IS the alias of any earlier entry whose generated alias it equals
                # ('X' after '         x', alias X: one file under two names — FAT semantics, not a defect): such names go first, so
                # that the aliases generated later avoid them
                def alias_shaped(n):
                    try:
                        return n == n.upper() and EightDotThree.is_8dot3_conform(n, enc)
                    except Exception:  # noqa
                        return False
                # (among them the ones without blanks first: ' 2' passes the conformity test too, and its generated alias is '2' — thorough tier,
                # seed 5: "create('2') failed: FEXP" after the directory ' 2' had been made)
                part = [n for n in part if alias_shaped(n) and " " not in n] + [n for n in part if alias_shaped(n) and " " in n] + \
                       [n for n in part if not alias_shaped(n)]
                ops = [["makedir", "/D"]]
                for j, n in enumerate(part):
                    p = "/D/" + n
                    ops.append(["makedir", p] if j % 4 == 3 else ["create", p])
                    ops.append(["exists", p])
                    ops.append(["getinfo", p])
                ops.append(["listdir", "/D"])
                for n in part:
                    ops.append(["exists", "/D/" + n])
                rep = dict(volume=meta, mount=dict(encoding=enc, preserve_case=pc), names=part)
                state = {"k": 0}
                created = []

                def on_step(k, op, ires, ir):
                    ctx.dist[op[0]] += 1
                    if op[0] in ("create", "makedir") and op[1] != "/D":
                        if ires[0] != "ok":
                            ctx.violation(f"[{enc},pc={pc}] {op[0]}({op[1][3:43]!r}, {len(op[1]) - 3} chars) failed: {ires[1]}", f"create-failed:{ires[1]}", dict(rep, name=op[1][3:]))
                        else:
                            created.append(op[1])
                    elif op[0] == "exists" and op[1] in created and ires != ("ok", True):
                        nm = op[1][3:]
                        low83 = (not pc) and nm != nm.upper() and EightDotThree.is_8dot3_conform(nm.upper(), enc)
                        ctx.violation(f"[{enc},pc={pc}] {nm[:40]!r} is not found by the name it was created with",
                                      f"not-found:pc{pc}:{'lower83' if low83 else 'other'}", dict(rep, name=nm))
                    elif op[0] == "getinfo" and op[1] in created and ires[0] == "ok":
                        shown = ires[1][0]
                        want = op[1][3:]
                        if pc and shown != want:
                            ctx.violation(f"[{enc},pc=True] {want[:40]!r} is shown as {shown[:40]!r}", "shown-differently", dict(rep, name=want))
                        if not pc and shown != want and shown != want.upper():
                            ctx.violation(f"[{enc},pc=False] {want[:40]!r} is shown as {shown[:40]!r}", "shown-differently", dict(rep, name=want))
                    elif op[0] == "listdir" and ires[0] == "ok":
                        missing = [p[3:] for p in created if p[3:] not in ires[1] and (pc or p[3:].upper() not in ires[1])]
                        if missing:
                            ctx.violation(f"[{enc},pc={pc}] listing lacks {missing[0][:40]!r}", "not-listed", dict(rep, name=missing[0]))
                        if len(ires[1]) != len(set(ires[1])):
                            ctx.violation(f"[{enc},pc={pc}] listing has duplicates", "listed-twice", rep)
                case = history.Case(label, img, ops, mount=dict(encoding=enc, preserve_case=pc), meta=meta)
                from .. import tie
                use_model = enc in ("ibm437", "cp850", "cp866")
                if use_model:
                    r = tie.run_program(img, ops, mount=case.mount, model=m, on_step=on_step)
                    ctx.traces += 1
                    if r["disagreement"]:
                        ctx.tie_break(f"names[{enc},pc={pc}]: model and implementation disagree at {r['disagreement'].get('at')}", dict(disagreement=r["disagreement"], names=part[:5]))
                else:
                    r = history.run_impl_only(case, on_step)
                ir = r["impl"]
                ctx.evaluations += len(part)
                # after remount every name is still found and listed as given; image sound
                if ir.fs is not None:
                    snap = ir.dev.volume()
                    try:
                        rw, _ = history.remount_walk(snap, 0, enc, True)
                        for p in created:
                            hit = p in rw or (not pc and ("/D/" + p[3:].upper()) in rw)
                            if not hit:
                                ctx.violation(f"[{enc},pc={pc}] after remount {p[3:43]!r} is gone", "remount-lost", dict(rep, name=p[3:]))
                                break
                    except Exception as e:  # noqa
                        ctx.violation(f"[{enc},pc={pc}] remount after creating names raised {type(e).__name__}: {e}", f"remount-raises:{type(e).__name__}", rep)
                    # every entry is also reached through its 8.3 alias, as the independent reader sees the aliases in the live image,
                    # and the alias leads to that very entry (two entries sharing an alias make one of them unreachable by it)
                    try:
                        sv = fatspec.Volume(snap, force_ft=history.force_ft(meta))
                        dloc = [e for e in sv.read_dir(sv.root_loc(), enc) if e["name"] == "D"][0]["cluster"]
                        dents = [e for e in sv.read_dir(dloc, enc) if e["short"] not in (".", "..")]
                    except Exception as e:  # noqa  (the fsck below reports an undecodable image)
                        dents = []
                    for e in dents:
                        if "\ufffd" in e["short"] or e["long"] is None:
                            continue
                        try:
                            e["short"].encode(enc)
                        except UnicodeError:
                            continue
                        res, _ = ir.op(["getinfo", "/D/" + e["short"]])
                        ctx.dist["getinfo-by-alias"] += 1
                        if res[0] != "ok":
                            ctx.violation(f"[{enc},pc={pc}] {e['name'][:40]!r} is not found through its alias {e['short']!r}: {res[1]}", "alias-not-found", dict(rep, name=e["name"], alias=e["short"]))
                            break
                        if res[1][0] != e["name"]:
                            ctx.violation(f"[{enc},pc={pc}] alias {e['short']!r} of {e['name'][:40]!r} leads to {res[1][0][:40]!r}", "alias-ambiguous", dict(rep, name=e["name"], alias=e["short"]))
                            break
                    ir.op(["closefs"])
                    fnd = history.fatspec_fsck(ir.dev.volume(), img, enc, meta)
                    if fnd:
                        ctx.violation(f"[{enc},pc={pc}] image after creating names: {fnd[0]}", "names-fsck:" + history.classify_finding(fnd[0]), dict(rep, findings=fnd[:5]))
            ctx.sample(dict(encoding=enc, preserve_case=pc, names=[n[:30] for n in uniq[:8]], count=len(uniq)))
    finally:
        m.close()


def extra_search(ctx):
    run(ctx)
