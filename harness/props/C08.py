"""C08 — history-level check (see DESIGN.md §5)."""
from . import _hist

LEVEL_NOTE = "history-level: theorems about the executable model; model tied to /repo by byte-exact write logs; direct oracle on the real images"
TRUSTED = ["Coq 8.16.1 kernel", "tools/translate.py", "extraction (ExtrOcamlBasic only) + ocaml/driver.ml", "harness/fatspec.py (independent reader / fsck)",
           "the implementation's in-memory directory cache is abstracted in the model (directories re-read from the device)"]
RULE = ("generated op programs (makedir/create/open/write/truncate/remove/removedir/removetree/setinfo/listdir/...) over a name pool mixing 8.3, long, "
        "Unicode and alias-colliding names on mkfs and independently built volumes; non-trivial = program with >= 5 distinct op kinds; "
        "distinct = (volume, op-kind sequence); plus fill-until-refused histories on volumes whose data area ends in a partial cluster, at offsets")
ORACLES = tuple("io_bounds".split(","))


def auto_size_cases(ctx):
    """volumes made by mkfs WITHOUT a size argument on a device at a non-zero offset (the size is taken from the device), then filled until
    every request is refused: the volume must end where the device ends (C08-m4)"""
    from .. import core, fatspec, history
    out = []
    for ft, size, off, kw in ((12, 300 * 1024, 65536, {}), (16, 9000 * 512, 1536, {}), (12, 200 * 2048, 4096, dict(sector_size=2048))):
        try:
            dev, pf = core.mkfs_image(ft, size, offset=off, auto_size=True, **kw)
        except Exception as e:  # noqa
            ctx.notes.append(f"mkfs without size refused FAT{ft} {size}: {e}")
            continue
        # formatting itself: nothing in front of or behind the volume is touched (C08-m8: a wipe of the system area positioned without the offset)
        if dev.outside or not dev.guards_intact():
            ctx.violation(f"mkfs FAT{ft} of {size} bytes at offset {off} touched the device outside the volume: {dev.outside[:1] or 'guard bytes modified'}",
                          "mkfs-outside", dict(fat_type=ft, size=size, offset=off, size_argument=None, **kw))
        img = dev.volume()
        try:
            v = fatspec.Volume(img)
            bpc, count = v.bpc, min(v.count, 700)
        except Exception:  # noqa  (a volume larger than its device: the program still runs, the guarded device reports the writes)
            import struct
            bps, spc = struct.unpack_from("<HB", img, 11)
            bpc, count = bps * spc, 700
        out.append(history.Case(f"mkfs{ft}-auto-size@{off}", img, _hist.fill_program(bpc, count), mount=dict(encoding="ibm437", offset=off),
                                meta=dict(source="mkfs", ft=ft, size=size, size_argument=None, offset=off, **kw)))
    for ft, size, off in ((12, 200 * 1024, 32256), (16, 8500 * 512, 1048576), (32, 66700 * 512, 4096)):
        if ft == 32 and ctx.tier == "quick" and ctx.seed % 2:
            continue
        try:
            dev, pf = core.mkfs_image(ft, size, offset=off)
        except Exception as e:  # noqa
            ctx.notes.append(f"mkfs FAT{ft} {size}@{off} refused: {e}")
            continue
        ctx.evaluations += 1
        ctx.dist["mkfs-at-offset"] += 1
        if dev.outside or not dev.guards_intact():
            ctx.violation(f"mkfs FAT{ft} of {size} bytes at offset {off} touched the device outside the volume: {dev.outside[:1] or 'guard bytes modified'}",
                          "mkfs-outside", dict(fat_type=ft, size=size, offset=off))
    return out


def slack_chain_cases(ctx):
    """damaged images on a device LARGER than the volume: the sector-rounded FAT has entries behind the last cluster (the normal case); here some of
    them hold end marks, a directory entry names one as its first cluster, a valid chain links into one, a directory starts in one.  Such entries
    address no cluster: every read or write through them lies behind the end of the volume.  Whatever pyfatfs answers, no access may leave the
    volume (D38)"""
    from .. import fatspec, history
    out = []
    for ft, clusters, kw in ((12, 300, {}), (16, 4100, {}), (32, 300, {}), (12, 150, dict(spc=2, nf=1))):
        eoc = {12: 0xFFF, 16: 0xFFFF, 32: 0x0FFFFFFF}[ft]
        nent = fatspec.build(ft, clusters=clusters, **kw)[1]["nent"]
        maxc = clusters + 1
        slack = [c for c in range(maxc + 1, nent)]
        if len(slack) < 8:
            continue
        s1, s2, s3 = slack[1], slack[3], slack[-1]
        base = 8 if ft == 32 else 4
        files = [(None, b"OK      BIN", 0x20, [base], b"k" * 100),
                 (None, b"SLACK   BIN", 0x20, [s1], b""),
                 (None, b"LINK    BIN", 0x20, [base + 1, s2], b"l" * 10),
                 (None, b"SLACKDIR   ", 0x10, [s3], b""),
                 # the LAST cluster of the volume linked to the entry right behind it (physically consecutive: C08-m6 read such runs in one piece)
                 (None, b"EDGE    BIN", 0x20, [maxc, maxc + 1], b"e" * 10)]
        img, info = fatspec.build(ft, clusters=clusters, files=files, **kw)
        tot = info["tot"] * (kw.get("bps", 512))
        img = bytearray(img[:tot])
        # sizes the damaged entries claim
        v = fatspec.Volume(bytes(img), force_ft=32 if ft == 32 else None)
        ro = (v.rsvd + v.nfats * v.fatsz) * v.bps if ft != 32 else ((2 - 2) * v.spc + v.fds) * v.bps
        for k in range(5):
            e = ro + 32 * k
            if img[e:e + 11] == b"EDGE    BIN":
                img[e + 28:e + 32] = (2 * v.bpc).to_bytes(4, "little")
            if img[e:e + 11] == b"SLACK   BIN":
                img[e + 28:e + 32] = (300).to_bytes(4, "little")
            if img[e:e + 11] == b"LINK    BIN":
                img[e + 28:e + 32] = (v.bpc + 40).to_bytes(4, "little")
        ops = [["listdir", "/"], ["getsize", "/SLACK.BIN"], ["readbytes", "/SLACK.BIN"], ["readbytes", "/LINK.BIN"], ["listdir", "/SLACKDIR"],
               ["readbytes", "/EDGE.BIN"], ["open", "e0", "/EDGE.BIN", "r"], ["read", "e0", v.bpc + 5], ["seek", "e0", v.bpc - 1], ["read", "e0", 2], ["hclose", "e0"],
               ["open", "h0", "/SLACK.BIN", "r+"], ["write", "h0", "5a" * 64], ["hclose", "h0"],
               ["open", "h1", "/LINK.BIN", "a"], ["write", "h1", "5b" * (2 * v.bpc)], ["hclose", "h1"],
               ["open", "h2", "/LINK.BIN", "r+"], ["seek", "h2", v.bpc + 4], ["write", "h2", "5c" * 16], ["hclose", "h2"],
               ["makedir", "/SLACKDIR/X"], ["create", "/SLACKDIR/Y.TXT"], ["remove", "/SLACK.BIN"], ["removetree", "/SLACKDIR"],
               ["readbytes", "/OK.BIN"], ["open", "h3", "/OK.BIN", "a"], ["write", "h3", "6b" * 700], ["hclose", "h3"], ["readbytes", "/OK.BIN"],
               ["closefs"]]
        meta = dict(source="build", ft=ft, clusters=clusters, damaged="chains into the FAT entries behind the last cluster", slack=[s1, s2, s3], **kw)
        for off in (0, 1536):
            out.append(history.Case(f"slack{ft}-c{clusters}@{off}", bytes(img), ops, mount=dict(encoding="ibm437", offset=off), meta=meta))
    return out


def run(ctx):
    for case in slack_chain_cases(ctx):
        from .. import history
        history.run_case(ctx, case, oracles=ORACLES, use_model=False)
        ctx.dist["slack-case"] += 1
    _hist.run_histories(ctx, ORACLES, nprog=ctx.scale(24, 400), nops=ctx.scale(30, 80), remount_every=False, extra_cases=auto_size_cases(ctx),
                        mounts=[dict(encoding="ibm437", offset=0), dict(encoding="ibm437", offset=4096, lazy_load=False), dict(encoding="cp850", offset=1536)])


def extra_search(ctx):
    _hist.run_histories(ctx, ORACLES, nprog=ctx.scale(48, 400), nops=ctx.scale(40, 100), remount_every=False)
