"""C08 — history-level check (see DESIGN.md §5)."""
from . import _hist

LEVEL_NOTE = "history-level: theorems about the executable model; model tied to /repo by byte-exact write logs; direct oracle on the real images"
TRUSTED = ["Coq 8.16.1 kernel", "tools/translate.py", "extraction (ExtrOcamlBasic only) + ocaml/driver.ml", "harness/fatspec.py (independent reader / fsck)",
           "the implementation's in-memory directory cache is abstracted in the model (directories re-read from the device)"]
RULE = ("generated op programs (makedir/create/open/write/truncate/remove/removedir/removetree/setinfo/listdir/...) over a name pool mixing 8.3, long, "
        "Unicode and alias-colliding names on mkfs and independently built volumes; non-trivial = program with >= 5 distinct op kinds; "
        "distinct = (volume, op-kind sequence); plus fill-until-refused histories on volumes whose data area ends in a partial cluster, at offsets")
ORACLES = tuple("io_bounds".split(","))


def fill_cases(ctx):
    """'... including filling the volume until it reports no space': volumes whose data area ends in a PARTIAL cluster (the sectors behind
    the last whole cluster belong to the volume but to no cluster), at non-zero offsets; files of several clusters, then of one byte, until
    every request is refused; one file removed and the space filled again"""
    from .. import fatspec, history
    out = []
    geoms = [dict(ft=12, clusters=40, spc=4, rootent=32, extra_sectors=3), dict(ft=16, clusters=4090, spc=2, rootent=32, extra_sectors=1),
             dict(ft=32, clusters=70, spc=8, extra_sectors=7), dict(ft=12, clusters=25, spc=2, bps=1024, rootent=16, extra_sectors=1)]
    if ctx.tier == "quick":
        geoms = [geoms[0], geoms[2], geoms[3]]
    for gi, g in enumerate(geoms):
        kw = dict(g)
        ft = kw.pop("ft")
        img, info = fatspec.build(ft, **kw)
        bpc = info["bpc"]
        big = g["clusters"] > 1000
        ops = [["makedir", "/f"]]
        n = 0
        per = (g["clusters"] // 12 + 1) if not big else g["clusters"] // 6
        for i in range(16 if not big else 8):
            ops += [["open", f"h{n}", f"/f/BIG{i:02d}.BIN", "w"], ["write", f"h{n}", "%02x" % (0x41 + i) * (per * bpc)], ["hclose", f"h{n}"]]
            n += 1
        for i in range(6):
            ops += [["open", f"h{n}", f"/f/ONE{i:02d}.BIN", "w"], ["write", f"h{n}", "7a"], ["hclose", f"h{n}"]]
            n += 1
        ops += [["remove", "/f/BIG01.BIN"], ["open", f"h{n}", "/f/AGAIN.BIN", "w"], ["write", f"h{n}", "62" * ((per + 1) * bpc)], ["hclose", f"h{n}"],
                ["open", f"h{n + 1}", "/f/AGAIN2.BIN", "w"], ["write", f"h{n + 1}", "63" * (per * bpc)], ["hclose", f"h{n + 1}"], ["listdir", "/f"], ["closefs"]]
        meta = dict(source="build", ft=ft, **kw)
        out.append(history.Case(f"fill{ft}-partial-last-cluster-{gi}", img, ops, mount=dict(encoding="ibm437", offset=(0, 1536, 4096, 512)[gi % 4]), meta=meta))
    return out


def run(ctx):
    _hist.run_histories(ctx, ORACLES, nprog=ctx.scale(24, 400), nops=ctx.scale(30, 80), remount_every=False, extra_cases=fill_cases(ctx),
                        mounts=[dict(encoding="ibm437", offset=0), dict(encoding="ibm437", offset=4096, lazy_load=False), dict(encoding="cp850", offset=1536)])


def extra_search(ctx):
    _hist.run_histories(ctx, ORACLES, nprog=ctx.scale(48, 400), nops=ctx.scale(40, 100), remount_every=False)
