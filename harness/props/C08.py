"""C08 — history-level check (see DESIGN.md §5)."""
from . import _hist

LEVEL_NOTE = "history-level: theorems about the executable model; model tied to /repo by byte-exact write logs; direct oracle on the real images"
TRUSTED = ["Coq 8.16.1 kernel", "tools/translate.py", "extraction (ExtrOcamlBasic only) + ocaml/driver.ml", "harness/fatspec.py (independent reader / fsck)",
           "the implementation's in-memory directory cache is abstracted in the model (directories re-read from the device)"]
RULE = ("generated op programs (makedir/create/open/write/truncate/remove/removedir/removetree/setinfo/listdir/...) over a name pool mixing 8.3, long, "
        "Unicode and alias-colliding names on mkfs and independently built volumes; non-trivial = program with >= 5 distinct op kinds; "
        "distinct = (volume, op-kind sequence); plus fill-until-refused histories on volumes whose data area ends in a partial cluster, at offsets")
ORACLES = tuple("io_bounds".split(","))


def auto_size_cases(ctx):
    """volumes made by mkfs WITHOUT a size argument on a device at a non-zero offset (the size is taken from the device), then filled until
    every request is refused: the volume must end where the device ends (C08-m4)"""
    from .. import core, fatspec, history
    out = []
    for ft, size, off, kw in ((12, 300 * 1024, 65536, {}), (16, 9000 * 512, 1536, {}), (12, 200 * 2048, 4096, dict(sector_size=2048))):
        try:
            dev, pf = core.mkfs_image(ft, size, offset=off, auto_size=True, **kw)
        except Exception as e:  # noqa
            ctx.notes.append(f"mkfs without size refused FAT{ft} {size}: {e}")
            continue
        img = dev.volume()
        try:
            v = fatspec.Volume(img)
            bpc, count = v.bpc, min(v.count, 700)
        except Exception:  # noqa  (a volume larger than its device: the program still runs, the guarded device reports the writes)
            import struct
            bps, spc = struct.unpack_from("<HB", img, 11)
            bpc, count = bps * spc, 700
        out.append(history.Case(f"mkfs{ft}-auto-size@{off}", img, _hist.fill_program(bpc, count), mount=dict(encoding="ibm437", offset=off),
                                meta=dict(source="mkfs", ft=ft, size=size, size_argument=None, offset=off, **kw)))
    return out


def run(ctx):
    _hist.run_histories(ctx, ORACLES, nprog=ctx.scale(24, 400), nops=ctx.scale(30, 80), remount_every=False, extra_cases=auto_size_cases(ctx),
                        mounts=[dict(encoding="ibm437", offset=0), dict(encoding="ibm437", offset=4096, lazy_load=False), dict(encoding="cp850", offset=1536)])


def extra_search(ctx):
    _hist.run_histories(ctx, ORACLES, nprog=ctx.scale(48, 400), nops=ctx.scale(40, 100), remount_every=False)
