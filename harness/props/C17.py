"""C17 — timestamps are stored and reported correctly in any time zone."""
import json
import os
import subprocess
import time

from .. import core
from ..core import Model

LEVEL_NOTE = ("theorems: the generated date/time bit packing round-trips every civil time 1980..2107 at 2 s resolution (C20) and Civil.v's days<->civil "
              "conversion is a bijection on all of Z; the zone is a parameter (offset function); the C library's zone rules are validated, not proved")
TRUSTED = ["Coq 8.16.1 kernel", "tools/translate.py", "the C library's localtime/mktime for POSIX TZ strings (oracle of the check)",
           "datetime.fromtimestamp / naive .timestamp() as wrappers of the same"]
RULE = ("zones UTC, EST5EDT, AEST-10AEDT (southern DST), IST-5:30, NPT-5:45, NST3:30NDT x utc on/off x instants: a grid over 1980..2107, +-2 s around every DST "
        "transition of 1987, 2024, 2100, month / leap boundaries, odd seconds, both ends of the range hour by hour (+-15 h: representable or not by zone and utc), and out-of-range values; setinfo then getinfo must return the instant at "
        "FAT resolution, the raw fields must hold the local (or UTC) broken-down time, new entries are stamped with the wall clock, out-of-range "
        "instants are rejected leaving the entry usable.  non-trivial = instant whose local offset differs from the offset at mount time, or a "
        "fractional-hour zone; distinct = (zone, utc, instant)")

ZONES = ["UTC", "EST5EDT,M3.2.0,M11.1.0", "AEST-10AEDT,M10.1.0,M4.1.0/3", "IST-5:30", "NPT-5:45", "NST3:30NDT,M3.2.0,M11.1.0"]


def instants(rng, n):
    out = [315532800 + 86400, 315532800 + 86400 * 400 + 1, 951782400 + 43200, 951868800 + 7, 4107542399 - 86400 * 2, 4354819199 - 86400 * 3,
           1709164800 + 3601, 4107456000 + 61]           # around 1980-01, 2000-02-29, 2100-02-28/03-01, 2107-12
    # DST transitions in the northern / southern rules of a few years (UTC instants around them)
    for y in (1987, 2024, 2061, 2100):
        base = int(time.mktime((y, 1, 1, 0, 0, 0, 0, 0, 0))) if False else (y - 1970) * 31556952
        for month_off in (0.19, 0.20, 0.25, 0.26, 0.75, 0.76, 0.83, 0.84, 0.85):
            t = int(base + month_off * 31556952)
            out += [t, t + 1]
    for _ in range(n):
        out.append(rng.randrange(315532800 + 86400 * 2, 4354819199 - 86400 * 2))
    # exact DST switch instants for EST5EDT 2024: 2024-03-10 07:00:00Z, 2024-11-03 06:00:00Z ; AEST: 2024-04-06 16:00Z, 2024-10-05 16:00Z
    for t in (1710054000, 1730613600, 1712419200, 1728144000):
        out += [t - 3601, t - 2, t - 1, t, t + 1, t + 2, t + 3599, t + 3601]
    return sorted(set(out))


OUT_OF_RANGE = [100, 315532800 - 86400 * 2, 4354819200 + 86400 * 400, -5, 10 ** 12]
# both ends of the representable range, hour by hour: whether such an instant is representable depends on the zone and on utc on / off
# (the stored broken-down time must lie in 1980..2107): 1980-01-01 00:00:00Z and 2108-01-01 00:00:00Z -15 h .. +15 h
EDGE = sorted({315532800 + k * 3600 + d for k in range(-15, 16) for d in (0, -1, 1)} | {4354819200 + k * 3600 + d for k in range(-15, 16) for d in (0, -2, -1, 1)})


EDGE_SET = set(EDGE)


def run(ctx):
    rng = ctx.rng
    ins = instants(rng, ctx.scale(120, 3000))
    zones = ZONES if ctx.tier == "thorough" else ZONES[:5]
    for z in zones:
        env = dict(os.environ, TZ=z, PYTHONPATH=os.environ.get("VERIF_REPO", "/repo"))
        p = subprocess.run(["/venv/bin/python", "-W", "ignore", os.path.join(core.VERIF, "harness", "tzprobe.py")], input=json.dumps({"instants": ins + OUT_OF_RANGE + EDGE}),
                           capture_output=True, text=True, env=env, timeout=600)
        if p.returncode != 0:
            ctx.tie_break(f"tzprobe failed under TZ={z}", p.stderr[-800:])
            continue
        res = json.loads(p.stdout)
        for r in res["results"]:
            ctx.evaluations += 1
            tag = f"{'utc' if r['utc'] else 'local'}"
            rep = dict(tz=z, utc=r["utc"], instant=r.get("t"), record=r)
            if "device_stamp" in r:
                if r.get("missing") or not (r["want_lo"] <= r["raw_wrt"] <= r["want_hi"]):
                    ctx.violation(f"TZ={z} utc={r['utc']}: the modification time of {r['device_stamp']!r} ON THE DEVICE after the stamping operation is "
                                  f"{r.get('raw_wrt')}, the wall clock was {r.get('want_lo')} .. {r.get('want_hi')}", f"stamp-not-recorded:{tag}", rep)
                continue
            if "stamp" in r:
                lo, hi = r["t0"] - 2.01, r["t1"] + 0.01
                if not (lo <= r["created"] <= hi and lo <= r["modified"] <= hi):
                    ctx.violation(f"TZ={z} utc={r['utc']}: new entry {r['stamp']} stamped {r['created'] - r['t0']:+.0f} s off the wall clock", f"stamp-off:{tag}", rep)
                continue
            t = r["t"]
            edge_out = t in EDGE_SET and not (r.get("year_here") is not None and 1980 <= r["year_here"] <= 2107)
            if t in EDGE_SET:
                ctx.dist["edge:" + ("outside" if edge_out else "representable")] += 1
            if t in OUT_OF_RANGE or edge_out:
                if r["set"] == "ok":
                    # clamping would be acceptable; storing garbage is not
                    if not (1980 <= r["raw_wrt"][0] <= 2107):
                        ctx.violation(f"TZ={z}: out-of-range instant {t} accepted and stored as year {r['raw_wrt'][0]}", f"range-accepted:{tag}", rep)
                elif r.get("mixed_changed"):
                    ctx.violation(f"TZ={z} utc={r['utc']}: a call with the fields {r['mixed_changed']}, rejected because of the out-of-range instant {t} in the last of them, "
                                  f"changed the earlier fields of the entry", "range-mixed-call", dict(tz=z, utc=r["utc"], t=t, fields=r["mixed_changed"]))
                elif r["set"].startswith("INTERNAL") or not r.get("still_writable", False) or not r.get("unchanged", True):
                    ctx.violation(f"TZ={z} utc={r['utc']}: out-of-range instant {t}: {r['set']}, entry unchanged={r.get('unchanged')}, still writable={r.get('still_writable')}"
                                  f" {r.get('after_error', '')}", f"range-corrupts:{tag}", rep)
                continue
            if r["set"] != "ok":
                ctx.violation(f"TZ={z} utc={r['utc']}: setinfo of representable instant {t} failed: {r['set']}", f"set-failed:{tag}", rep)
                continue
            if r.get("fold"):
                ctx.dist["fold-skipped"] += 1
                continue
            if "mid_created" in r and r.get("mid_fields", [0, 0, 0, 1])[3:] == [0, 0, 0] and abs(r["mid_created"] - r["mid_want"]) > 2.01:
                # (only where midnight exists and is unambiguous in the zone: the broken-down time really is 00:00:00)
                ctx.violation(f"TZ={z} utc={r['utc']}: created set to midnight {r['mid_want']} (modified {t}) is reported as {r['mid_created']}",
                              f"created-at-midnight:{tag}", rep)
                continue
            if "dev_dates" in r and r["dev_dates"] != r["dev_want"]:
                ctx.violation(f"TZ={z} utc={r['utc']}: created / modified / accessed dates ON THE DEVICE are {r['dev_dates']}, set were {r['dev_want']}",
                              f"device-date-fields:{tag}", rep)
                continue
            want = t - t % 2
            offnote = "frac" if z.startswith(("IST", "NPT", "NST")) else "dst" if "," in z else "plain"
            ctx.nontrivial.add((z, r["utc"], t)) if offnote != "plain" else None
            wf = list(r["want_fields"])
            wf[5] -= wf[5] % 2
            if r["raw_wrt"] != wf or r["raw_crt"] != wf or r["raw_acc"] != wf[:3]:
                ctx.violation(f"TZ={z} utc={r['utc']}: instant {t}: fields on disk {r['raw_wrt']} but {'UTC' if r['utc'] else 'local'} broken-down time is {wf}",
                              f"fields-wrong:{tag}:{offnote}", rep)
                continue
            if r["modified"] != want or r["created"] != want:
                ctx.violation(f"TZ={z} utc={r['utc']}: instant {t} reported back as {r['modified']} ({r['modified'] - want:+.0f} s)", f"report-shift:{tag}:{offnote}", rep)
                continue
            if r["accessed"] != r["want_day_start"]:
                ctx.violation(f"TZ={z} utc={r['utc']}: accessed {t} reported as {r['accessed']} instead of the start of its day {r['want_day_start']}",
                              f"accessed-shift:{tag}:{offnote}", rep)
        ctx.dist["zone:" + z.split(",")[0]] += len(res["results"])
        ctx.sample(dict(tz=z, example=res["results"][3] if len(res["results"]) > 3 else None))
    # generated bit packing vs the real encoder on the instants (UTC fields)
    m = Model()
    try:
        for t in ins[:200]:
            tm = time.gmtime(t)
            ws, r1 = m.cmd(f"f.ser_date {tm.tm_year} {tm.tm_mon} {tm.tm_mday}")
            ws, r2 = m.cmd(f"f.ser_time {tm.tm_hour} {tm.tm_min} {tm.tm_sec}")
            from pyfatfs.DosDateTime import DosDateTime
            d = DosDateTime(*tm[:6])
            ctx.traces += 1
            if r1 is not None and (r1 != f"ok {d.serialize_date()}" or r2 != f"ok {d.serialize_time()}"):
                ctx.tie_break("Gen.serialize_* vs DosDateTime", dict(t=t))
    finally:
        m.close()


def extra_search(ctx):
    run(ctx)
