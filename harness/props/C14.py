"""C14 — mkfs produces a valid, correctly typed, fully usable empty volume."""
import random
import warnings

from .. import core, fatspec, history
from ..core import ImplRun, Model, mkfs_image

LEVEL_NOTE = ("theorems about the GENERATED mkfs arithmetic (Gen.mkfs_geometry, tables, FAT[0]/FAT[1] initialisers): for 512-byte sectors and sizes "
              "in the accepted range the volume fits the size, the FAT covers count+2 entries and the cluster count lies in the range of the "
              "requested type; the real mkfs is run and judged by the independent checker")
TRUSTED = ["Coq 8.16.1 kernel", "tools/translate.py (tables, formula and constants are generated; math.ceil(a/b) = ceiling division for a < 2^53)",
           "extraction + driver", "harness/fatspec.py"]
RULE = ("FAT type x size (every row boundary of the size->cluster tables +-1 sector, smallest accepted sizes, random sizes) x sector size 512..4096 x 1..3 "
        "FATs x media bytes x labels 0..11 chars x partition offset 0 / 1536; checked: fits in size, fsck, signatures, FSInfo/backup, label entry, type by the "
        "cluster-count rule, mounts empty, whole data area can be filled and read back (small volumes).  non-trivial = successfully formatted volume; "
        "distinct = (type, sectors, sector size, nfats)")

ROWS = {12: [4084, 8168, 16336, 32672, 65344, 130688], 16: [8400, 32680, 262144], 32: [66600, 532480]}


def check_one(ctx, m, ft, size, ss, nf, media, label, offset, fill, auto_size=False):
    args = dict(fat_type=ft, size=size, sector_size=ss, number_of_fats=nf, media_type=media, label=label, offset=offset)
    if auto_size:
        args["size_argument"] = None         # mkfs(size=None) on a device that ends `size` bytes behind the offset
        ctx.dist["auto-size"] += 1
    ctx.evaluations += 1
    ctx.dist[f"ft{ft}-ss{ss}-nf{nf}"] += 1
    try:
        with warnings.catch_warnings():
            warnings.simplefilter("ignore")
            dev, pf = mkfs_image(ft, size, offset=offset, auto_size=auto_size, sector_size=ss, number_of_fats=nf, media_type=media, label=label, volume_id=0x12345678)
    except Exception as e:  # noqa
        ctx.dist["rejected:" + type(e).__name__] += 1     # "formatting either fails with an error or ..."
        return
    img = dev.volume()
    if dev.outside or not dev.guards_intact():
        ctx.violation(f"mkfs{args} touched bytes outside the requested {size} bytes: {dev.outside[:1]}", "mkfs-outside", args)
        return
    try:
        v = fatspec.Volume(img)
    except Exception as e:  # noqa
        ctx.violation(f"mkfs{args}: independent reader rejects the volume: {e}", f"mkfs-invalid:ft{ft}:{str(e)[:30]}", args)
        return
    if v.totsec * v.bps > size:
        ctx.violation(f"mkfs{args}: volume of {v.totsec} x {v.bps} bytes is larger than the requested size", f"mkfs-too-large:ss{ss}", args)
        return
    if v.count < 1:
        ctx.violation(f"mkfs{args}: cluster count {v.count}", "mkfs-no-clusters", args)
        return
    if v.ft != ft:
        ctx.violation(f"mkfs{args}: {v.count} clusters is a FAT{v.ft} cluster count, FAT{ft} was requested", f"mkfs-type:{ft}:{v.ft}", args)
        return
    fnd = fatspec.fsck(img)
    if fnd:
        ctx.violation(f"mkfs{args}: {fnd[0]}", "mkfs-fsck:" + history.classify_finding(fnd[0]), dict(args, findings=fnd[:5]))
        return
    want0 = {12: 0xF00, 16: 0xFF00, 32: 0x0FFFFF00}[ft] | media
    if v.fat_entry(0) != want0:
        ctx.violation(f"mkfs{args}: FAT[0] = {v.fat_entry(0):#x}, specification says {want0:#x}", "mkfs-fat0", args)
    if v.fat_entry(1) < v.eoc_min and not (ft == 12 and v.fat_entry(1) == 0xFF0):
        ctx.violation(f"mkfs{args}: FAT[1] = {v.fat_entry(1):#x} is not an end-of-chain mark", "mkfs-fat1", args)
    if img[510:512] != b"\x55\xaa":
        ctx.violation(f"mkfs{args}: boot signature missing", "mkfs-signature", args)
    if ft == 32:
        import struct
        fsi = struct.unpack_from("<H", img, 48)[0]
        bk = struct.unpack_from("<H", img, 50)[0]
        s = img[fsi * v.bps:fsi * v.bps + 512]
        if struct.unpack_from("<L", s, 0)[0] != 0x41615252 or struct.unpack_from("<L", s, 484)[0] != 0x61417272 or s[508:512] != b"\0\0\x55\xaa":
            ctx.violation(f"mkfs{args}: FSInfo sector signatures wrong", "mkfs-fsinfo", args)
        if bk and img[bk * v.bps:bk * v.bps + 90] != img[0:90]:
            ctx.violation(f"mkfs{args}: backup boot sector differs", "mkfs-backup", args)
    ents = v.dir_bytes(v.root_loc())
    lab = [ents[i:i + 11] for i in range(0, min(len(ents), 512), 32) if ents[i] not in (0, 0xE5) and ents[i + 11] == 0x08]
    if not lab or lab[0].rstrip(b" ").decode("ascii", "replace") != label[:11].upper().rstrip():
        ctx.violation(f"mkfs{args}: volume label entry {lab[:1]} does not match {label!r}", "mkfs-label", args)
    # the model's geometry (generated arithmetic) against the real one
    ws, r = m.cmd(f"f.mkfs_geom {ft} {size} {ss} {nf}")
    ctx.traces += 1
    got = dict(kv.split("=") for kv in r.split()[1:]) if r and r.startswith("ok") else None
    if r is not None and got is None:
        ctx.tie_break("Gen.mkfs_geometry refuses a size the real mkfs accepts", dict(args=args, model=r))
    elif got is not None and (int(got["fatsz"]) != v.fatsz or int(got["spc"]) != v.spc or int(got["rootent"]) != v.rootent or int(got["rsvd"]) != v.rsvd):
        ctx.tie_break("Gen.mkfs_geometry vs the boot sector mkfs wrote", dict(args=args, model=got, impl=dict(fatsz=v.fatsz, spc=v.spc, rootent=v.rootent, rsvd=v.rsvd)))
    # mounts empty, can be filled
    ir = ImplRun(img)
    res, _ = ir.mount()
    if res[0] != "ok":
        ctx.violation(f"mkfs{args}: the new volume does not mount: {res}", "mkfs-mount", args)
        return
    if ir.fs.fs.fat_type != ft or ir.fs.listdir("/") != []:
        ctx.violation(f"mkfs{args}: mounts as FAT{ir.fs.fs.fat_type} with {ir.fs.listdir('/')}", "mkfs-mount-type", args)
    ctx.nontrivial.add((ft, v.totsec, ss, nf))
    if fill and v.count <= 2200:
        avail = v.count - (1 if ft == 32 else 0)
        per = max(1, avail // 3)
        written = {}
        k = 0
        left = avail
        while left > 0:
            n = min(per, left)
            name = f"/FILL{k}.BIN"
            data = bytes([(k * 37 + 1) & 0xFF]) * (n * v.bpc)
            r1, _ = ir.op(["writebytes", name, data.hex()])
            if r1[0] != "ok":
                ctx.violation(f"mkfs{args}: filling the {avail} free clusters failed at {left} remaining: {r1}", f"mkfs-fill:{r1[1]}", args)
                break
            written[name] = data
            left -= n
            k += 1
        else:
            for name, data in written.items():
                r2, _ = ir.op(["readbytes", name])
                if r2[0] != "ok" or r2[1] != data:
                    ctx.violation(f"mkfs{args}: {name} does not read back after filling the volume", "mkfs-readback", args)
                    break
            r3, _ = ir.op(["writebytes", "/ONEMORE.BIN", "00"])
            if r3[0] == "ok":
                ctx.violation(f"mkfs{args}: a write succeeded on a full volume", "mkfs-overfull", args)
            if ir.dev.outside:
                ctx.violation(f"mkfs{args}: access outside the volume while filling: {ir.dev.outside[0]}", "io-outside:fill", args)
    ir.op(["closefs"])
    ctx.sample(dict(args=args, clusters=v.count, fat_sectors=v.fatsz))


def run(ctx):
    rng = ctx.rng
    m = Model()
    try:
        cases = []
        for ft in (12, 16, 32):
            for ss in (512, 1024, 2048, 4096) if ctx.tier == "thorough" else (512, 4096):
                for row in ROWS[ft][:(2 if ctx.tier == "quick" else 6)]:
                    for d in (-1, 0, 1):
                        cases.append((ft, (row + d) * ss, ss, rng.choice([1, 2, 3])))
        for ft, lo, hi in ((12, 30, 4000), (16, 8401, 20000), (32, 66601, 70000)):
            for _ in range(ctx.scale(6, 60)):
                secs = rng.randrange(lo, hi)
                cases.append((ft, secs * 512 + rng.choice([0, 0, 1, 511]), 512, rng.choice([1, 2, 3])))
        # FAT32 with sectors larger than 512 bytes (D34); the row boundaries above are beyond the quick tier's size limit for these
        cases.append((32, (66601 + rng.randrange(0, 40)) * 1024, 1024, rng.choice([1, 2])))
        # ... every sector size: the reserved area must hold the backup boot sector and FSInfo whatever the sector size (C14-m7: a reserved
        # area "kept at 16 KiB" has 4 sectors of 4096 bytes, the backup boot sector at sector 6 lands in the first FAT)
        big32 = [(32, (66601 + rng.randrange(0, 40)) * 2048, 2048, 2), (32, (66601 + rng.randrange(0, 40)) * 4096, 4096, rng.choice([1, 2]))]
        cases += big32
        for secs in (3, 10, 17, 18, 20, 24, 29, 33, 64, 128):
            cases.append((12, secs * 512, 512, 2))
        # power-of-two sizes (where a "rounded" size table would put the cluster count over the type's limit)
        for mib in (2, 4, 8, 16, 32, 64, 128):
            for nf in (1, 2):
                cases.append((12, mib << 20, 512, nf))
                cases.append((12, mib << 20, 4096, nf))
        # search the GENERATED mkfs arithmetic (extracted model) over whole ranges of sector counts for a geometry that
        # violates the specification, then confirm any candidate on the real mkfs
        sweeps = [(12, 512, 2, 18, 530000), (12, 512, 1, 18, 530000), (12, 512, 3, 18, 530000), (16, 512, 2, 8401, 1048576), (16, 512, 1, 8401, 1048576),
                  (16, 512, 3, 8401, 1048576), (32, 512, 2, 66601, 1048576), (12, 4096, 2, 18, 70000), (16, 4096, 2, 8401, 300000), (12, 1024, 2, 18, 530000)]
        step = 1 if ctx.tier == "thorough" else 3
        for ft, ss, nf, lo, hi in sweeps:
            ws, r = m.cmd(f"f.mkfs_sweep {ft} {ss} {nf} {lo + (ctx.seed % step)} {hi} {step}")
            if r is None:
                break
            t = r.split()
            ctx.extra["model_sweep_evaluations"] = ctx.extra.get("model_sweep_evaluations", 0) + int(t[-1].split("=")[1]) if t[1] == "bad" else \
                ctx.extra.get("model_sweep_evaluations", 0) + int(t[2].split("=")[1])
            if t[1] == "bad":
                info = dict(kv.split("=") for kv in t[2:])
                secs = int(info["sectors"])
                ctx.dist["model-sweep-candidate"] += 1
                if secs * ss <= (200 << 20):
                    cases.insert(0, (ft, secs * ss, ss, nf))
                else:
                    ctx.tie_break(f"generated mkfs arithmetic violates the specification at {secs} sectors of {ss} bytes (FAT{ft}, {nf} FATs): {r}; too large to confirm on the real mkfs here",
                                  dict(model=r))
        rng.shuffle(cases)
        cases.sort(key=lambda c: 0 if ctx.dist.get("model-sweep-candidate") and c in cases[:1] else 1)
        medias = [0xF8, 0xF0, 0xF9, 0xFA, 0xFB, 0xFC, 0xFD, 0xFE, 0xFF]
        labels = ["", "A", "NO NAME", "ELEVENCHARS", "my disk"]
        n = 0
        for ft, size, ss, nf in cases:
            if ctx.time_left() < 10 or (size > (140 << 20 if ctx.tier == "quick" else 300 << 20) and (ft, size, ss, nf) not in big32):
                continue
            n += 1
            check_one(ctx, m, ft, size, ss, nf, medias[n % len(medias)], labels[n % len(labels)], 1536 if n % 5 == 0 else 0, fill=(n % 3 == 0))
            if n % 7 == 0:       # the same without the size argument, always at an offset: the size comes from the device
                check_one(ctx, m, ft, size, ss, nf, medias[n % len(medias)], labels[n % len(labels)], 1536 if n % 2 else 65536, fill=(n % 3 == 0), auto_size=True)
    finally:
        m.close()


def extra_search(ctx):
    run(ctx)
