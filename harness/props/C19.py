"""C19 — concurrent modifications are linearizable and keep the image sound."""
import itertools
import os
import random
import warnings

from .. import core, fatspec, history, sched as S
from ..core import TraceDevice, ImplRun
from . import C13, C18
from pyfatfs.PyFatFS import PyFatBytesIOFS
import pyfatfs

LEVEL_NOTE = ("theorem about the event-program model: operations that run entirely inside one re-entrant filesystem lock are atomic sections, so every schedule "
              "yields the state of the acquisition order (C19_locked); the lock discipline of the real entry points is checked on traces and all single "
              "pre-emption schedules plus sampled deeper / line-level schedules are run on the real code")
TRUSTED = C18.TRUSTED
RULE = ("2-3 threads each running 1-2 mutating operations (makedir, create, write+close through own handles, append, remove, removedir) on different paths, in "
        "the same or different directories, FAT12/16/32; schedules as in C18; after each schedule: per-thread exceptions, final tree equal to the tree of "
        "some sequential interleaving of the operations, and the closed image passes fsck.  non-trivial = schedule with >= 1 context switch inside an "
        "operation; distinct = (program, pre-emption steps)")

PYFAT_DIR = os.path.dirname(pyfatfs.__file__)


def mount_rw(img, sched=None):
    dev = TraceDevice(img, writable=True, record_reads=False)
    with warnings.catch_warnings():
        warnings.simplefilter("ignore")
        sdev = S.SchedDevice(dev, sched) if sched else dev
        f = PyFatBytesIOFS(sdev)
    if sched:
        f._lock = S.SLock(sched, "fs", reentrant=True)
        locks = S.hook_locks(f.fs, sched, {"_PyFat__lock": "dev", "fs_lock": "fsl"})
        fs_level = [l for k, l in locks.items() if k != "_PyFat__lock"]
        if fs_level:
            sdev.guard = fs_level[0]        # the premise of C19_linearizable: every modification happens inside the filesystem lock
        dev.sdev = sdev
    return f, dev


def do_op(f, op):
    k = op[0]
    if k == "makedir":
        f.makedir(op[1])
    elif k == "makedirs":
        f.makedirs(op[1])
    elif k == "create":
        f.create(op[1])
    elif k == "write":
        with f.openbin(op[1], "w") as h:
            h.write(bytes.fromhex(op[2]))
    elif k == "append":
        with f.openbin(op[1], "a") as h:
            h.write(bytes.fromhex(op[2]))
    elif k == "rplus":           # update handles: they read AND write
        with f.openbin(op[1], "r+") as h:
            h.write(bytes.fromhex(op[2]))
    elif k == "wplus":
        with f.openbin(op[1], "w+") as h:
            h.write(bytes.fromhex(op[2]))
    elif k == "remove":
        f.remove(op[1])
    elif k == "removedir":
        f.removedir(op[1])
    elif k == "removetree":
        f.removetree(op[1])
    elif k == "exists":
        f.exists(op[1])
    return None


def do_ops(f, ops):
    out = []
    for op in ops:
        try:
            do_op(f, op)
            out.append("ok")
        except Exception as e:  # noqa
            out.append("ERR:" + core.classify_exc(e) + ":" + str(e)[:50])
    return out


def writer_progs(rng, nthreads):
    progs = []
    for t in range(nthreads):
        d = rng.choice(["/dir one", "/E", "/", "/dir one/inner"])
        ops = []
        for j in range(rng.choice([1, 2])):
            k = rng.choice(["makedir", "create", "write", "write", "append", "remove"])
            base = d.rstrip("/") + f"/T{t}_{j}"
            if k == "makedir":
                ops.append(("makedir", base + " dir"))
            elif k == "create":
                ops.append(("create", base + " created.txt"))
            elif k == "write":
                ops.append(("write", base + ".BIN", (bytes([65 + t]) * rng.choice([10, 600, 1500])).hex()))
            elif k == "append":
                ops.append(("append", ["/A.TXT", "/E/x.bin", "/dir one/inner/deep file.bin"][t % 3], (bytes([97 + t]) * rng.choice([5, 700])).hex()))
            elif k == "remove":
                ops.append(("remove", f"/dir one/f{t * 3 + j:02d} with long name.txt"))
        progs.append(ops)
    return progs


def tree_of(f):
    r = ImplRun.__new__(ImplRun)
    r.fs = f
    w = ImplRun.walk(r)
    return {p: (t[0],) if t[0] == "d" else (t[0], t[1], core.hashlib.md5(t[2]).hexdigest()) for p, t in w.items()}


def sequential_trees(img, progs):
    """trees of every interleaving of whole operations (per-thread order kept)"""
    seqs = set()
    idx = [i for i, p in enumerate(progs) for _ in p]
    for perm in set(itertools.permutations(idx)):
        seqs.add(perm)
    out = []
    for perm in list(seqs)[:60]:
        f, dev = mount_rw(img)
        pos = [0] * len(progs)
        with warnings.catch_warnings():
            warnings.simplefilter("ignore")
            for t in perm:
                try:
                    do_op(f, progs[t][pos[t]])
                except Exception:
                    pass
                pos[t] += 1
            out.append(tree_of(f))
            f.close()
    return out


SETUP = {}      # label -> operations the main thread performs before the threads start (e.g. a first look that loads a directory into the cache)


def one_schedule(ctx, img, meta, progs, seq_trees, policy, line_mode, label, rep):
    sc = S.Sched(len(progs), policy)
    f, dev = mount_rw(img, sc)
    for op in SETUP.get(label, ()):
        do_op(f, op)
    res = S.run_threads(sc, [lambda p=p: do_ops(f, p) for p in progs], pyfat_dir=PYFAT_DIR, line_mode=line_mode, timeout=30)
    ctx.evaluations += 1
    if sc.error:
        if "timeout" in str(sc.error):
            # the harness' own watchdog, not a detected deadlock (those are reported explicitly by the scheduler): not judged
            ctx.notes.append(f"{label}: schedule abandoned by the harness watchdog ({rep.get('preempt') or rep.get('line_level_seed')})")
            ctx.dist["watchdog-abandoned"] += 1
        else:
            ctx.violation(f"{label}: {sc.error}", "schedule-deadlock", rep)
        return sc
    ung = getattr(getattr(dev, "sdev", None), "unguarded", None)
    if ung:
        # the interleaving model's premise does not hold on this trace: a correspondence break, not by itself a violation of the property
        ctx.tie_break(f"{label}: thread {ung[0][0]} wrote to the device at {ung[0][1]} without owning the filesystem lock (premise of C19_linearizable)",
                      dict(rep, unguarded_writes=ung[:5]))
    for i, r in enumerate(res):
        got = r[1] if r and r[0] == "ok" else [str(r)]
        bad = [x for x in got if isinstance(x, str) and x.startswith("ERR:INTERNAL")]
        if bad:
            ctx.violation(f"{label}: thread {i} raised {bad[0][:100]}", f"writer-internal:{bad[0].split(':')[2]}", rep)
            return sc
    try:
        with warnings.catch_warnings():
            warnings.simplefilter("ignore")
            t = tree_of(f)
            f.close()
    except Exception as e:  # noqa
        ctx.violation(f"{label}: walking / closing after the schedule raised {type(e).__name__}: {e}", f"after-schedule-raises:{type(e).__name__}", rep)
        return sc
    if t not in seq_trees:
        near = min(seq_trees, key=lambda s: len(set(s.items()) ^ set(t.items())))
        d = sorted(set(near.items()) ^ set(t.items()))[:2]
        ctx.violation(f"{label}: final tree equals no sequential order of the operations: {str(d)[:160]}", "not-linearizable", rep)
        return sc
    fnd = history.fatspec_fsck(dev.volume(), img, "ibm437", meta)
    if fnd:
        ctx.violation(f"{label}: image after the schedule: {fnd[0]}", "concurrent-fsck:" + history.classify_finding(fnd[0]), dict(rep, findings=fnd[:5]))
        return sc
    # "... and after close() the image satisfies C03": a fresh mount of the closed image shows the tree the live object reported
    try:
        rw, _ = history.remount_walk(dev.volume(), 0, "ibm437", True)
        rt = {p: (x[0],) if x[0] == "d" else (x[0], x[1], core.hashlib.md5(x[2]).hexdigest()) for p, x in rw.items()}
    except Exception as e:  # noqa
        ctx.violation(f"{label}: the image after the schedule cannot be mounted again: {type(e).__name__}: {e}", f"concurrent-remount-raises:{type(e).__name__}", rep)
        return sc
    if rt != t:
        d = sorted(set(rt.items()) ^ set(t.items()))[:2]
        ctx.violation(f"{label}: after the schedule and close() a fresh mount shows a different tree than the live object reported: {str(d)[:160]}", "concurrent-remount-differs", rep)
        return sc
    if sc.switches:
        ctx.nontrivial.add((label, tuple(sorted(rep.get("preempt", {}).items())) if rep.get("preempt") else tuple(sc.trace[:30])))
    return sc


def run(ctx):
    rng = ctx.rng
    for ft in ((12, 32) if ctx.tier == "quick" else (12, 16, 32)):
        img, meta = C13.base_image(rng, ft)
        for pi in range(ctx.scale(7, 24)):
            if ctx.time_left() < 15:
                break
            progs = writer_progs(rng, rng.choice([2, 2, 3]))
            if pi == 0:
                progs = [[("write", "/W0.BIN", (b"A" * 1500).hex())], [("write", "/E/W1.BIN", (b"B" * 1500).hex())]]
            if pi == 1:
                # two different names whose plain 8.3 alias is the same: the second one to be LINKED must get the numbered alias, whichever thread
                # looked at the directory first (C19-m6: lookup and alias generation outside the lock)
                progs = [[("makedir", "/dir one/projects alpha")], [("makedir", "/dir one/projects beta")]]
            if pi == 2:      # a handle write and a namespace operation in ONE directory (they must exclude each other: C19-m3)
                progs = [[("write", "/dir one/W2.BIN", (b"C" * 1500).hex())], [("create", "/dir one/C2.TXT")]]
            label = f"fat{ft}-prog{pi}"
            if pi == 3:      # a compound removal that frees a chain, against an append to an EMPTY file in an already loaded directory — it allocates
                # before it touches the device (C19-m5: removetree left unlocked; its free_cluster_chain copies, changes and swaps the FAT)
                progs = [[("removetree", "/E")], [("append", "/dir one/f00 with long name.txt", (b"D" * 1500).hex())]]
                SETUP[label] = [("exists", "/dir one/f00 with long name.txt")]
            if pi == 4:      # an append that GROWS a file which already owns clusters (the allocation happens inside the data write) against another
                # allocation, with line pre-emptions in the allocator (C19-m8: the filesystem lock released around the payload copy)
                progs = [[("append", "/A.TXT", (b"G" * 1500).hex())], [("write", "/E/W4.BIN", (b"H" * 1500).hex())]]
            if pi == 5:      # makedirs — its look-ups run under the base-class lock only — into a directory nobody has looked into yet, against a file
                # created in that directory (C19-m9: the first look parsed the directory BEFORE taking the filesystem lock and stored the stale list)
                progs = [[("makedirs", "/E/sub five/deeper")], [("write", "/E/W5.BIN", (b"I" * 700).hex())]]
            if pi == 6:      # the same through UPDATE handles (r+ overwrites and grows a file that owns clusters, w+ writes a new one): a handle that can
                # also read is a writer all the same (C19-m10: handles whose mode can read took a private lock "so that readers do not queue")
                progs = [[("rplus", "/A.TXT", (b"J" * 1500).hex())], [("wplus", "/E/W6.BIN", (b"K" * 1500).hex())]]
            seq = sequential_trees(img, progs)
            rep0 = dict(volume=meta, programs=progs)
            sc = one_schedule(ctx, img, meta, progs, seq, S.preempt_policy({}), False, label, dict(rep0, preempt={}))
            n = sc.step
            pts = list(range(1, n + 1))
            cap = ctx.scale(60 if pi not in (2, 3, 4, 5, 6) else 700, 400 if pi not in (2, 3, 4, 5, 6) else 3000)     # the handle-write / namespace-operation program: every single pre-emption point
            if len(pts) > cap:
                pts = sorted(rng.sample(pts, cap))
            before = len(ctx.violations)
            for s in pts:
                one_schedule(ctx, img, meta, progs, seq, S.preempt_policy({s: 0}), False, label, dict(rep0, preempt={s: 0}))
                if len(ctx.violations) > before + 2:
                    break
            # one pre-emption at distinct source lines of the shared in-memory tree (see C18), for the two fixed programs; thorough: all programs
            if pi in (0, 1, 2, 3, 4, 5, 6) or ctx.tier == "thorough":
                scb = S.Sched(len(progs), S.preempt_policy({}))
                scb.record_kinds = True
                fb, _ = mount_rw(img, scb)
                for op in SETUP.get(label, ()):
                    do_op(fb, op)
                S.run_threads(scb, [lambda p=p: do_ops(fb, p) for p in progs], pyfat_dir=PYFAT_DIR, line_mode=True, timeout=60)
                for t in range(len(progs)):
                    every = pi in (2, 3, 4, 6) and ctx.tier == "thorough"      # every distinct line, not only the tree module's
                    # the FAT in memory is shared state like the tree: the lines of the functions that copy, change and swap it (C19-m5)
                    fat_funcs = ("free_cluster_chain", "allocate_bytes", "flush_fat", "_remove", "removetree", "write_data_to_cluster") if pi in (3, 4, 6) else ()
                    lines = [k for k in scb.kinds.get(t, {}) if k.startswith("line:") and (every or k.split(":")[1] in C18.TREE_FUNCS or k.split(":")[1] in fat_funcs)]
                    cap_l = ctx.scale(40 if not every and pi not in (3, 4, 6) else 160, 400 if not every else 2000)
                    if len(lines) > cap_l:
                        lines = rng.sample(lines, cap_l)
                    for k in lines:
                        one_schedule(ctx, img, meta, progs, seq, S.kind_preempt_policy(t, k, first=t), True, label, dict(rep0, line_preempt=[t, k]))
                        ctx.dist["line-preemption"] += 1
                        if len(ctx.violations) > before + 4:
                            break
            for k in range(ctx.scale(8, 100)):
                seed = rng.randrange(1 << 30)
                one_schedule(ctx, img, meta, progs, seq, S.random_policy(random.Random(seed), p=rng.choice([0.02, 0.1])), True, label, dict(rep0, line_level_seed=seed))
                if len(ctx.violations) > before + 4:
                    break
            ctx.sample(dict(volume=f"FAT{ft}", programs=[[o[:2] for o in p] for p in progs], yield_points=n))


def extra_search(ctx):
    run(ctx)
