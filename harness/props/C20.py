"""C20 — on-disk field codecs are exact inverses over their whole domain."""
import datetime
import hashlib
import io
import struct
import warnings

from .. import core
from ..core import Model
from pyfatfs.DosDateTime import DosDateTime
from pyfatfs.EightDotThree import EightDotThree
from pyfatfs.PyFat import PyFat
from pyfatfs.BootSectorHeader import FAT12BootSectorHeader, FAT32BootSectorHeader
from pyfatfs.FSInfo import FSInfo

LEVEL_NOTE = ("Theorems of Properties/C20.v are about definitions regenerated from /repo (dates, times, checksum, layouts) and about the "
              "hand model of FAT packing / struct layouts, which is tied by running it and the real methods on the same inputs.")
TRUSTED = ["Coq 8.16.1 kernel + vm_compute (finite sweeps lifted by allbits_spec)", "tools/translate.py (fail-closed Python-ast translator)",
           "Python datetime/time constructor validity modelled by PyEnv.valid_date/valid_time",
           "extraction: ExtrOcamlBasic only, no Extract Constant; ocaml/driver.ml",
           "struct.pack/unpack modelled by Codec.parse_layout/ser_layout"]
RULE = ("exhaustive: all 65536 date words and all 65536 time words through the real decode/encode and the extracted generated model; "
        "FAT tables of every length 1..12 sectors x 4 sector sizes x 3 widths with boundary/random entries; random and structured 11-byte "
        "names; random sectors through the header classes.  non-trivial = a case whose decoded value differs from the default / a table "
        "with >= 3 distinct non-zero entries; distinct = by input bytes")


def _valid_date(y, m, d):
    try:
        datetime.date(y, m, d)
        return True
    except ValueError:
        return False


def check_words(ctx, m):
    buf = []
    for w in range(65536):
        ctx.evaluations += 1
        try:
            dt = DosDateTime.deserialize_date(w)
            tm = DosDateTime.deserialize_time(w)
        except Exception as e:  # noqa
            ctx.violation(f"decoding word 0x{w:04x} raises {type(e).__name__}: {e}", f"decode-raises:{type(e).__name__}",
                          dict(kind="word", word=w))
            buf.append("X.")
            continue
        buf.append(f"{dt.year}.{dt.month}.{dt.day}.{tm.hour}.{tm.minute}.{tm.second}.")
        y, mo, d = (w >> 9) + 1980, (w >> 5) & 15, w & 31
        if _valid_date(y, mo, d):
            if (dt.year, dt.month, dt.day) != (y, mo, d) or dt.serialize_date() != w:
                ctx.violation(f"date word 0x{w:04x} decodes to {dt.date()} / re-encodes to {dt.serialize_date():#x}", "date-roundtrip",
                              dict(kind="word", word=w))
            ctx.nontrivial.add(("d", w))
        elif (dt.year, dt.month, dt.day) != (1980, 1, 1):
            ctx.violation(f"invalid date word 0x{w:04x} decodes to {dt.date()}, not the default", "date-default", dict(kind="word", word=w))
        h, mi, s = w >> 11, (w >> 5) & 63, (w & 31) * 2
        if h < 24 and mi < 60 and s < 60:
            back = DosDateTime(1980, 1, 1, tm.hour, tm.minute, tm.second).serialize_time()
            if (tm.hour, tm.minute, tm.second) != (h, mi, s) or back != w:
                ctx.violation(f"time word 0x{w:04x} decodes to {tm} / re-encodes to {back:#x}", "time-roundtrip", dict(kind="word", word=w))
            ctx.nontrivial.add(("t", w))
        elif (tm.hour, tm.minute, tm.second) != (0, 0, 0):
            ctx.violation(f"invalid time word 0x{w:04x} decodes to {tm}, not the default", "time-default", dict(kind="word", word=w))
    digest = hashlib.md5("".join(buf).encode()).hexdigest()
    ws, r = m.cmd("f.sweep_dates")
    ctx.traces += 65536
    if r is not None and r != "ok " + digest:
        ctx.tie_break("Gen.deserialize_date/time vs DosDateTime over all words", dict(model=r, impl=digest))
    # encode: a 1 s grid sample of 1980..2107 plus every odd second of one day
    rng = ctx.rng
    n = ctx.scale(20000, 400000)
    for i in range(n):
        y, mo, d = rng.randrange(1980, 2108), rng.randrange(1, 13), rng.randrange(1, 32)
        if not _valid_date(y, mo, d):
            continue
        h, mi, s = rng.randrange(24), rng.randrange(60), rng.randrange(60)
        if i % 7 == 0:
            y, mo, d, h, mi, s = rng.choice([(1980, 1, 1, 0, 0, 0), (2107, 12, 31, 23, 59, 59), (2100, 2, 28, 23, 59, 58), (2000, 2, 29, 12, 0, 1)])
        ctx.evaluations += 1
        dt = DosDateTime(y, mo, d, h, mi, s)
        wd, wt = dt.serialize_date(), dt.serialize_time()
        if wd != ((y - 1980) << 9) + (mo << 5) + d or wt != (h << 11) + (mi << 5) + s // 2:
            ctx.violation(f"{dt} encodes to date {wd:#x} time {wt:#x}", "encode-layout", dict(kind="datetime", value=[y, mo, d, h, mi, s]))
        bd, bt = DosDateTime.deserialize_date(wd), DosDateTime.deserialize_time(wt)
        if (bd.year, bd.month, bd.day, bt.hour, bt.minute, bt.second) != (y, mo, d, h, mi, s - s % 2):
            ctx.violation(f"{dt} does not survive encode/decode: {bd.date()} {bt}", "encode-decode", dict(kind="datetime", value=[y, mo, d, h, mi, s]))
        if i < 200:
            ws, r = m.cmd(f"f.ser_date {y} {mo} {d}")
            ws, r2 = m.cmd(f"f.ser_time {h} {mi} {s}")
            if r is not None and (r != f"ok {wd}" or r2 != f"ok {wt}"):
                ctx.tie_break("Gen.serialize_* vs DosDateTime", dict(value=[y, mo, d, h, mi, s], model=[r, r2], impl=[wd, wt]))
    ctx.dist["words"] += 131072


def bare_pyfat(ft, bps, nsec, fatbytes):
    pf = PyFat()
    pf.initialized = True
    pf.fat_type = ft
    pf._fat_size = nsec
    pf.bpb_header = {"BPB_BytsPerSec": bps, "BPB_RsvdSecCnt": 1, "BPB_NumFATs": 1, "BPB_SecPerClus": 1}
    pf._PyFat__fp = io.BytesIO(b"\0" * bps + fatbytes)
    pf.is_read_only = False
    return pf


def spec_entry(ft, bs, i):
    if ft == 12:
        off = i + i // 2
        w = bs[off] | (bs[off + 1] << 8)
        return (w >> 4) if i & 1 else (w & 0xFFF)
    if ft == 16:
        return struct.unpack_from("<H", bs, 2 * i)[0]
    return struct.unpack_from("<L", bs, 4 * i)[0] & 0x0FFFFFFF


def check_fat_tables(ctx, m):
    rng = ctx.rng
    reps = ctx.scale(1, 6)
    for ft in (12, 16, 32):
        for bps in (512, 1024, 2048, 4096):
            for nsec in range(1, 13):
                for rep in range(reps):
                    n = bps * nsec
                    kind = (rep + nsec + ft) % 3
                    if kind == 0:
                        bs = bytes(rng.randrange(256) for _ in range(n))
                    elif kind == 1:
                        bs = bytes(rng.choice([0x00, 0xFF, 0xF8, 0x0F, 0xF0, 0xF7]) for _ in range(n))
                    else:
                        bs = bytes((i * 7 + 3) & 0xFF for i in range(n))
                    if ft == 12 and n % 3 == 2:
                        bs = bs[:-1] + bytes([bs[-1] & 0x0F])      # bits that belong to no complete entry
                    ctx.evaluations += 1
                    ctx.dist[f"fat{ft}"] += 1
                    pf = bare_pyfat(ft, bps, nsec, bs)
                    case = dict(kind="fat", ft=ft, bps=bps, nsec=nsec, bytes_md5=hashlib.md5(bs).hexdigest(), variant=kind, seed=ctx.seed)
                    try:
                        with warnings.catch_warnings():
                            warnings.simplefilter("ignore")
                            pf._parse_fat()
                            back = bytes(pf)
                    except Exception as e:  # noqa
                        ctx.violation(f"FAT{ft} table of {nsec}x{bps} bytes: {type(e).__name__}: {e}", f"fat-raises:{ft}", case)
                        continue
                    total = n * 8 // ft
                    if len(pf.fat) != total:
                        ctx.violation(f"FAT{ft} table of {nsec} sectors x {bps}: parsed {len(pf.fat)} entries, the table holds {total}",
                                      f"fat{ft}-entry-count:N%3={n % 3}", dict(case, parsed=len(pf.fat), expected=total))
                    bad = [i for i in range(min(total, len(pf.fat))) if pf.fat[i] != spec_entry(ft, bs, i)]
                    if bad:
                        ctx.violation(f"FAT{ft} entry {bad[0]} parsed as {pf.fat[bad[0]]:#x}, specification formula gives {spec_entry(ft, bs, bad[0]):#x}",
                                      f"fat{ft}-entry-value", dict(case, index=bad[0]))
                    want = bs if ft != 12 else bs[:n - 1] if n % 3 == 1 else bs
                    if ft == 32:
                        if back != bs:
                            k = next(i for i in range(min(len(back), n)) if back[i] != bs[i]) if len(back) == n else -1
                            ctx.violation(f"FAT32 table not reproduced by serialise(parse): first difference at byte {k} "
                                          f"(entry {k // 4}: {bs[k - k % 4:k - k % 4 + 4].hex()} -> {back[k - k % 4:k - k % 4 + 4].hex()})",
                                          "fat32-reserved-bits", dict(case, byte=k))
                    elif back != want:
                        ctx.violation(f"FAT{ft} table of {n} bytes not reproduced by serialise(parse) (len {len(back)} vs {len(want)})",
                                      f"fat{ft}-pack-parse:N%3={n % 3}", case)
                    if len(set(pf.fat)) >= 3:
                        ctx.nontrivial.add((ft, bps, nsec, kind, rep))
                    # the model on the same bytes
                    ws, r = m.cmd(f"f.parse_fat {ft} {bs.hex()}")
                    ctx.traces += 1
                    want_list = ",".join(str(spec_entry(ft, bs, i)) for i in range(total))
                    if r is None:
                        pass
                    elif r != "ok " + want_list:
                        ctx.tie_break("Codec.parse_fat vs specification formula", dict(case))
                    elif [int(x) for x in r[3:].split(",")] != list(pf.fat):
                        ctx.tie_break("Codec.parse_fat vs PyFat._parse_fat", dict(case, impl_len=len(pf.fat), model_len=total))
                    if rep == 0 and nsec <= 3:
                        ws, r = m.cmd(f"f.pack_parse_fat {ft} {bs.hex()}")
                        if r is not None and r != "ok " + want.hex():
                            ctx.tie_break("Codec.pack_fat(parse_fat) vs bytes", dict(case))
    ctx.sample(dict(kind="fat", note="FAT12/16/32 x 4 sector sizes x 1..12 sectors x 3 fill patterns"))


def ref_checksum(name11):
    s = 0
    for c in name11:
        s = (((s & 1) << 7) + (s >> 1) + c) & 0xFF
    return s


def check_names(ctx, m):
    rng = ctx.rng
    for i in range(ctx.scale(3000, 60000)):
        if i % 3 == 0:
            nm = bytes(rng.randrange(256) for _ in range(11))
        elif i % 3 == 1:
            nm = bytes(rng.choice(b"ABCXYZ019 _~\xe5\x05\x80\xff") for _ in range(11))
        else:
            nm = (bytes(rng.choice(b"ABCDEFGHIJ0123") for _ in range(rng.randrange(1, 9))).ljust(8) + bytes(rng.choice(b"TXDOC") for _ in range(rng.randrange(0, 4))).ljust(3))
        if nm[0] in (0x00, 0xE5):
            nm = b"A" + nm[1:]
        ctx.evaluations += 1
        e = EightDotThree(encoding="cp850")
        e.set_byte_name(nm)
        c = e.checksum()
        if c != ref_checksum(nm):
            ctx.violation(f"checksum of {nm!r} is {c}, specification gives {ref_checksum(nm)}", "checksum", dict(kind="name11", name=nm.hex()))
        stored0 = bytes(e.name)
        try:
            s = str(e)
        except Exception as ex:  # noqa
            ctx.violation(f"decoding short name {nm!r} raises {type(ex).__name__}", "sfn-decode-raises", dict(kind="name11", name=nm.hex()))
            continue
        if bytes(e.name) != stored0:
            ctx.violation(f"decoding short name {nm!r} changed the stored bytes to {bytes(e.name)!r}", "sfn-decode-mutates",
                          dict(kind="name11", name=nm.hex()))
        if i < 300:
            ws, r = m.cmd(f"f.checksum {nm.hex()}")
            ctx.traces += 1
            if r is not None and r != f"ok {c}":
                ctx.tie_break("Gen.checksum vs EightDotThree.checksum", dict(name=nm.hex(), model=r, impl=c))
        ctx.nontrivial.add(nm)
    # padding and the 0x05 / 0xE5 lead byte through set_str_name (cp850: 0xE5 is 'Õ')
    for nm in ["A", "ABCDEFGH.XYZ", "A.B", "README", "ÕX.TXT", "Õ", "AB CD.E F", "X.", "12345678.123", "AÕ.TXT", "AB.ÕXT", "ÕÕ.ÕÕÕ", "XÕÕÕÕÕÕÕ.Õ"]:
        ctx.evaluations += 1
        e = EightDotThree(encoding="cp850")
        try:
            e.set_str_name(nm)
        except Exception:
            continue
        stored = bytes(e.name)
        # the specification's stored form: both fields blank-padded; ONLY a lead byte 0xE5 becomes 0x05 (C20-m8 translated the first 0xE5 anywhere)
        b0, _, x0 = nm.partition(".")
        want11 = bytearray(b0.strip().encode("cp850").ljust(8) + x0.strip().encode("cp850").ljust(3))
        if want11[0] == 0xE5:
            want11[0] = 0x05
        if len(want11) == 11 and stored != bytes(want11):
            ctx.violation(f"short name {nm!r} stored as {stored!r}, the specification stores {bytes(want11)!r}", "sfn-store-bytes", dict(kind="sfn", name=nm))
        if len(stored) != 11 or stored[0] == 0xE5:
            ctx.violation(f"short name {nm!r} stored as {stored!r}", "sfn-store", dict(kind="sfn", name=nm))
        s1 = str(e)
        s2 = str(e)
        after = bytes(e.name)
        root, _, ext = nm.partition(".")
        want = root.strip() + ("." + ext.strip() if ext.strip() else "")
        if s1 != want or s2 != want or after != stored:
            ctx.violation(f"short name {nm!r}: stored {stored!r}, shown {s1!r}/{s2!r}, stored after decoding {after!r}", "sfn-decode-mutates",
                          dict(kind="sfn", name=nm))
        b, _, x = nm.upper().partition(".")
        ws, r = m.cmd(f"f.sfn_pack {core.hx(b.strip().encode('cp850'))} {core.hx(x.strip().encode('cp850'))}")
        if r is not None and r.split()[1] != stored.hex():
            ctx.tie_break("Codec.sfn_pack vs set_str_name", dict(name=nm, model=r, impl=stored.hex()))
    ctx.sample(dict(kind="name11", example="ÕX.TXT under cp850 (lead byte 0xE5 stored as 0x05)"))


def check_layouts(ctx, m):
    rng = ctx.rng
    for i in range(ctx.scale(300, 5000)):
        sec = bytearray(rng.randrange(256) for _ in range(512))
        if i % 3 == 0:
            # edge values in whole fields: all zero / all ones sectors, and words set to 0, 1, the sign bit, all ones (C20-m6: a serialiser
            # that replaces a legitimate 0 — "falsy" — by the "unknown" value)
            if i % 9 == 0:
                sec = bytearray([0x00, 0xFF, 0x00][(i // 9) % 3:][:1] * 512)
            for o in range(0, 512, 4):
                if rng.random() < (0.35 if i % 9 else 0.1):
                    sec[o:o + 4] = struct.pack("<L", rng.choice([0, 0, 1, 0x80000000, 0xFFFFFFFF, 0x0000FFFF, 0xFFFF0000]))
        ctx.evaluations += 1
        for cls, n in ((FAT12BootSectorHeader, 62), (FAT32BootSectorHeader, 90)):
            h = cls()
            h.parse_header(bytes(sec))
            if bytes(h) != bytes(sec[:n]):
                ctx.violation(f"{cls.__name__}: serialise(parse) differs from the sector", "bpb-roundtrip", dict(kind="sector", hex=bytes(sec[:n]).hex()))
        f = FSInfo()
        s2 = bytearray(sec)
        s2[4:484] = b"\0" * 480
        s2[496:508] = b"\0" * 12
        f.parse_header(bytes(s2))
        if bytes(f) != bytes(s2):
            ctx.violation("FSInfo: serialise(parse) differs from the sector", "fsinfo-roundtrip", dict(kind="sector", hex=bytes(s2).hex()))
        if i < 100:
            # the model parses by BPB_FATSz16 like parse_header does
            for fat16sz in (0, 9):
                s3 = bytearray(sec)
                s3[22:24] = struct.pack("<H", fat16sz)
                ws, r = m.cmd(f"f.hdr_roundtrip {bytes(s3).hex()}")
                ctx.traces += 1
                want = bytes(s3[:62 if fat16sz else 90]).hex()
                if r is not None and r != "ok " + want:
                    ctx.tie_break("Codec.ser_hdr(parse_hdr) vs sector bytes", dict(hex=bytes(s3[:90]).hex()))
        ctx.nontrivial.add(bytes(sec[:16]))


def run(ctx):
    m = Model()
    try:
        check_words(ctx, m)
        check_fat_tables(ctx, m)
        check_names(ctx, m)
        check_layouts(ctx, m)
        ctx.exhaustive = True
        ctx.extra["exhaustive_part"] = "all 2 x 65536 date/time words"
        ctx.sample(dict(kind="word", word="0xF05D", decoded="2100-02-29 is not a date -> 1980-01-01"))
    finally:
        m.close()
