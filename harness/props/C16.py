"""C16 — mounting and cleanly unmounting a volume leaves it byte-identical."""
import random
import struct

from .. import core, fatspec, gen, history
from ..core import ImplRun, Model, ScriptedClock, clock_tuple
from . import _hist

LEVEL_NOTE = ("theorems: serialise(parse) of a FAT table is the identity on every complete entry for all three widths incl. the FAT32 reserved "
              "bits (exact bytes), boot-sector layout round trip, set-then-clear of the flags is the identity; model tied by byte-exact logs")
TRUSTED = ["Coq 8.16.1 kernel", "tools/translate.py (layouts, masks)", "extraction + driver", "harness/fatspec.py independent formatter"]
RULE = ("images from the independent formatter: FAT12 tables of 1..12 sectors, FAT16 / FAT32 tables with arbitrary values in unused entries, bad-cluster "
        "marks, reserved upper bits, random boot code and OEM field, with and without FAT32 backup, 1..3 FATs; (a) mount read-write + close, compare "
        "all bytes; (b) a history, then compare every byte outside what the history touched.  non-trivial = image whose FAT has >= 8 non-zero "
        "entries outside the chains in use; distinct = by image digest")


def foreign(rng, ft, k=None):
    kw = dict(spc=rng.choice([1, 2]), nf=rng.choice([1, 2, 2, 3]), bootcode=bytes(rng.randrange(256) for _ in range(300)),
              oem=bytes(rng.choice(b"MSDOS5.0IBMmkfs") for _ in range(8)))
    if ft == 12:
        k = k or rng.randrange(1, 13)
        cap = k * 512 * 2 // 3
        kw.update(clusters=min(cap - 2, 4080) if rng.random() < 0.5 else max(20, min(cap - 2, 4080) - rng.randrange(0, 40)), fatsec=k, rootent=32)
    elif ft == 16:
        kw.update(clusters=rng.choice([4085, 4100, 5000]), rootent=64)
    else:
        kw.update(clusters=rng.choice([150, 300]), backup=rng.random() < 0.7,
                  backup_bootcode=bytes(rng.randrange(256) for _ in range(200)) if rng.random() < 0.6 else None)
    n = kw["clusters"]
    used = sorted(rng.sample(range(3 if ft == 32 else 2, n + 2), min(12, n - 2)))
    a, b = used[:6], used[6:]
    rng.shuffle(b)
    fill, hi = {}, {}
    bad = {12: 0xFF7, 16: 0xFFF7, 32: 0x0FFFFFF7}[ft]
    free = [c for c in range(2, n + 2) if c not in used and not (ft == 32 and c == 2)]
    for c in rng.sample(free, min(10, len(free))):
        fill[c] = bad
    if ft == 32:
        for c in rng.sample(range(0, n + 2), 12):
            hi[c] = rng.randrange(1, 16)
        for c in b[:3] + b[-1:]:         # ... and on clusters of the file the history removes: released entries keep their reserved bits (C16-m10)
            hi[c] = rng.randrange(1, 16)
    bpc = 512 * kw["spc"]
    files = [("first file.dat", b"FIRST   DAT", 0x20, a, bytes(rng.randrange(256) for _ in range(len(a) * bpc - 5))),
             (None, b"SECOND  BIN", 0x20, b, bytes(rng.randrange(256) for _ in range(max(1, len(b) * bpc - bpc // 2))))]
    # a chain that leaves the range [first, last] and comes back, as long as that range: c -> c+5 -> c+1 -> c+3, with another file in c+2 and a
    # bad-cluster mark in c+4 (C16-m7: "first .. last has the length of the chain, so it is contiguous")
    taken = set(used) | set(fill)
    run = next((c for c in range(3 if ft == 32 else 2, n - 5) if all(x not in taken for x in range(c, c + 6))), None)
    if run is not None:
        weave = [run, run + 5, run + 1, run + 3]
        files.append((None, b"WEAVE   BIN", 0x20, weave, bytes(rng.randrange(256) for _ in range(4 * bpc))))
        files.append((None, b"MIDDLE  BIN", 0x20, [run + 2], bytes(rng.randrange(256) for _ in range(bpc - 9))))
        fill[run + 4] = bad
    kw.update(files=files, fatfill=fill, hi_bits=hi or None, label="FOREIGNVOL")
    if ft == 12:
        fill[n + 1] = bad          # the LAST cluster carries a bad mark: on tables with an odd number of entries it is the unpaired last entry (C16-m9)
    img, info = fatspec.build(ft, **kw)
    if ft == 12:
        # bytes of the FAT sectors behind the last complete 12-bit entry belong to no entry: other formatters leave anything there
        b = bytearray(img)
        fb = info["fatsec"] * 512
        used_b = (info["nent"] * 3 + 1) // 2
        rs = kw.get("rsvd") or 1
        for q in range(kw["nf"]):
            for j in range(used_b, fb):
                b[(rs + q * info["fatsec"]) * 512 + j] = 0xA5
        img = bytes(b)
    # the reserved byte that holds the dirty flag in bit 0: its OTHER bits belong to other systems (NT: 0x02 = surface scan) and are part
    # of the bytes that must come back unchanged
    r1 = rng.choice([0, 0x02, 0x80, 0x82, 0x7E])
    if r1:
        b = bytearray(img)
        o = 65 if ft == 32 else 37
        b[o] = r1
        if ft == 32 and kw.get("backup"):
            b[6 * 512 + o] = r1
        img = bytes(b)
    # the text fields of the boot sector as other formatters leave them: NUL-padded or all NUL, with high bytes, unpadded (C16-m6: the
    # header class "normalised" them to blank-padded on every assignment, so mount + close re-wrote them)
    txt = rng.choice([None, "nul", "nul", "allnul", "high"])
    if txt:
        b = bytearray(img)
        lo, fo = (71, 82) if ft == 32 else (43, 54)
        for off, n in ((3, 8), (lo, 11), (fo, 8)):
            val = {"nul": bytes(b[off:off + n]).rstrip(b" ")[:rng.randrange(0, n)].ljust(n, b"\0"), "allnul": b"\0" * n,
                   "high": bytes(rng.choice([0x80, 0xE5, 0xFF, 0x20, 0x00, 0x41]) for _ in range(n))}[txt]
            b[off:off + n] = val
            if ft == 32 and kw.get("backup"):
                b[6 * 512 + off:6 * 512 + off + n] = val
        img = bytes(b)
    meta = dict(source="build", ft=ft, reserved1=r1, text_fields=txt, second_chain=list(files[1][3]), **{k2: v for k2, v in kw.items() if k2 in ("spc", "nf", "clusters", "fatsec", "rootent", "backup")})
    return img, meta, len(fill) + len(hi) + (1 if r1 else 0)


def first_diff(a, b):
    if len(a) != len(b):
        return min(len(a), len(b))
    for i in range(0, len(a), 4096):
        if a[i:i + 4096] != b[i:i + 4096]:
            return next(j for j in range(i, min(i + 4096, len(a))) if a[j] != b[j])
    return -1


def region_of(v, off):
    if off < v.rsvd * v.bps:
        return f"reserved sector {off // v.bps} byte {off % v.bps}"
    if off < (v.rsvd + v.nfats * v.fatsz) * v.bps:
        k = (off - v.rsvd * v.bps) // (v.fatsz * v.bps)
        o = (off - v.rsvd * v.bps) % (v.fatsz * v.bps)
        return f"FAT copy {k} byte {o} (entry ~{o * 8 // v.ft})"
    if off < v.fds * v.bps:
        return f"root directory byte {off - (v.rsvd + v.nfats * v.fatsz) * v.bps}"
    return f"cluster {(off // v.bps - v.fds) // v.spc + 2} byte {off % v.bpc}"


def run(ctx):
    m = Model()
    try:
        n = ctx.scale(36, 500)
        for i in range(n):
            if ctx.time_left() < 10:
                break
            rng = random.Random(ctx.rng.randrange(1 << 62))
            ft = [12, 12, 16, 32][i % 4]
            img, meta, weird = foreign(rng, ft, k=(i // 4) % 12 + 1 if ft == 12 else None)
            label = f"foreign{ft}-{i}"
            ctx.evaluations += 1
            v = fatspec.Volume(img, force_ft=history.force_ft(meta))
            ctx.dist[f"ft{ft}-fatsec{v.fatsz}-nf{v.nfats}"] += 1
            if weird >= 8:
                ctx.nontrivial.add(core.hashlib.md5(img).hexdigest())
            # (a) mount + close
            case = history.Case(label, img, [["closefs"]], mount=dict(encoding="ibm437"), meta=meta)
            r = history.run_case(ctx, case, oracles=("internal",), model=m)
            ir = r["impl"]
            if r["steps"][0]["impl"][0] != "ok":
                ctx.violation(f"{label}: a valid foreign volume does not mount: {r['steps'][0]['impl']}", "mount-failed", case.replay())
                continue
            out = ir.dev.volume()
            d = first_diff(img, out)
            if d >= 0:
                ctx.violation(f"{label} (FAT{ft}, {v.fatsz}-sector FAT, {v.nfats} FATs): mount + close changed byte {d}: {region_of(v, d)}: "
                              f"{img[d]:#04x} -> {out[d]:#04x}", f"mount-close-changed:ft{ft}:{region_of(v, d).split(' ')[0]}", dict(case.replay(), byte=d, build_seed=i))
                continue
            # (b) a history; everything the history did not touch must be preserved
            ops = [["makedir", "/newdir"], ["open", "h", "/newdir/n.bin", "w"], ["write", "h", (b"N" * (v.bpc + 3)).hex()], ["hclose", "h"],
                   ["create", "/third.txt"], ["remove", "/third.txt"]]
            wv = v.tree()[0].get("/WEAVE.BIN")
            if wv is not None:      # overwritten in place, through its own chain only
                ops += [["open", "w", "/WEAVE.BIN", "r+"], ["write", "w", (b"\x57" * wv[1]).hex()], ["hclose", "w"]]
            released = {}
            sec = v.tree()[0].get("/SECOND.BIN")
            if (i // 4) % 2 == 0 and sec is not None:
                # a foreign file is removed: its entries become free, in their low 28 bits only
                ops += [["remove", "/SECOND.BIN"]]
                released = {c: (v.fat_raw32(c) & 0xF0000000) if v.ft == 32 else 0 for c in meta["second_chain"]}
            ops += [["closefs"]]
            case2 = history.Case(label, img, ops, mount=dict(encoding="ibm437"), meta=meta)
            r2 = history.run_case(ctx, case2, oracles=("internal",), model=m)
            out2 = r2["impl"].dev.volume()
            v2 = fatspec.Volume(out2, force_ft=history.force_ft(meta))
            problems = []
            flag = 65 if v.ft == 32 else 37
            if any(img[j] != out2[j] for j in range(512) if j != flag):
                problems.append("boot sector bytes other than the flag changed")
            # reserved sectors other than FSInfo / backup copies
            for c in range(0, v.fat_capacity()):
                if c < 2:
                    continue
                before = v.fat_raw32(c) if v.ft == 32 else v.fat_entry(c)
                after = v2.fat_raw32(c) if v.ft == 32 else v2.fat_entry(c)
                low = (before & 0x0FFFFFFF) if v.ft == 32 else before      # a FAT32 entry is free when its low 28 bits are zero
                if c in released:
                    if after != released[c]:
                        problems.append(f"FAT entry {c} released by the removal of a foreign file: {before:#x} -> {after:#x}, reserved bits and nothing else were to stay ({released[c]:#x})")
                        break
                    continue
                if low != 0 and before != after:
                    problems.append(f"FAT entry {c} of an untouched cluster changed {before:#x} -> {after:#x}")
                    break
                if low == 0 and v.ft == 32 and (after >> 28) != (before >> 28):
                    problems.append(f"FAT entry {c}: reserved bits changed {before:#x} -> {after:#x}")
                    break
            # ... in EVERY copy of the table: the copies were identical and still are (C16-m8: all copies written in one piece, one byte short per
            # copy on FAT12 tables whose serialisation is shorter than their sectors)
            cp0 = [img[(v.rsvd + q * v.fatsz) * v.bps:(v.rsvd + (q + 1) * v.fatsz) * v.bps] for q in range(v.nfats)]
            cp2 = [out2[(v.rsvd + q * v.fatsz) * v.bps:(v.rsvd + (q + 1) * v.fatsz) * v.bps] for q in range(v.nfats)]
            if all(c == cp0[0] for c in cp0):
                for q in range(1, v.nfats):
                    if cp2[q] != cp2[0]:
                        dq = next(j for j in range(len(cp2[0])) if cp2[q][j] != cp2[0][j])
                        problems.append(f"FAT copy {q} differs from the first one at byte {dq} after the history")
                        break
            if v.ft == 12:
                used_b = (v.fat_capacity() * 3 + 1) // 2
                if cp2[0][used_b:] != cp0[0][used_b:]:
                    problems.append(f"bytes of the FAT sectors behind the last complete entry changed: {cp0[0][used_b:].hex()} -> {cp2[0][used_b:].hex()}")
            t1, _ = v.tree()
            t2, _ = v2.tree()
            for p, t in t1.items():
                if p == "/WEAVE.BIN":
                    if t2.get(p, (None,))[:3] != ("f", t[1], b"\x57" * t[1]):
                        problems.append("the file overwritten in place through its non-monotonic chain does not read back")
                elif p == "/SECOND.BIN" and released:
                    if p in t2:
                        problems.append("the removed foreign file is still there")
                elif t2.get(p, (None,))[:3] != t[:3]:
                    problems.append(f"foreign file {p} changed")
            if v.ft == 32 and (v.fat_raw32(0) >> 28) != (v2.fat_raw32(0) >> 28):
                problems.append("reserved bits of FAT[0] changed")
            if problems:
                ctx.violation(f"{label}: after a small history: {problems[0]}", "frame:" + problems[0].split(" ")[0], dict(case2.replay(), problems=problems[:5], build_seed=i))
            ctx.sample(dict(image=label, ft=ft, fat_sectors=v.fatsz, nfats=v.nfats, odd_fat_entries=weird))
    finally:
        m.close()


def extra_search(ctx):
    run(ctx)
