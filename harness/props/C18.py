"""C18 — concurrent readers get the same answers as serial readers."""
import os
import random
import warnings

from .. import core, fatspec, sched as S
from ..core import TraceDevice, ImplRun, ScriptedClock
from . import C13
from pyfatfs.PyFatFS import PyFatBytesIOFS
import pyfatfs

LEVEL_NOTE = ("theorem C18_readers about the event-program model: well-locked reader programs over a constant device return their solo results under every "
              "schedule; each reader operation's seek/read pairs lie inside the device lock (checked on the real event traces); all interleavings at "
              "device-access / lock granularity with one pre-emption are run on the real code, plus sampled two-pre-emption and line-level schedules")
TRUSTED = ["Coq 8.16.1 kernel", "CPython executes the code between two yield points without touching other shared state (validated by the schedules, not proved)",
           "harness/sched.py controlled scheduler (owns the device and the library's locks)"]
RULE = ("2-3 reader threads (listdir / getinfo / exists / isdir / open+seek+read on own handles, first touch of lazily loaded directories included) on a "
        "populated volume; schedules: every single pre-emption point of the first thread at device-access and lock granularity (exhaustive for bound 1), "
        "sampled pairs, and random line-level schedules via sys.settrace; per-thread results must equal the solo results and every seek/read pair of the "
        "device trace must be inside the device lock.  non-trivial = schedule with >= 1 context switch between two device accesses; distinct = (program, "
        "pre-emption steps)")

PYFAT_DIR = os.path.dirname(pyfatfs.__file__)


def _tree_funcs():
    import ast
    t = ast.parse(open(os.path.join(PYFAT_DIR, "FATDirectoryEntry.py")).read())
    return {n.name for n in ast.walk(t) if isinstance(n, (ast.FunctionDef, ast.AsyncFunctionDef))}


TREE_FUNCS = _tree_funcs()


def _handle_funcs():
    """the functions a reader's own handle runs: everything of FatIO.py, and the chain follower it drives step by step"""
    import ast
    t = ast.parse(open(os.path.join(PYFAT_DIR, "FatIO.py")).read())
    return {n.name for n in ast.walk(t) if isinstance(n, (ast.FunctionDef, ast.AsyncFunctionDef))} | {"get_cluster_chain", "read_cluster_contents"}


HANDLE_FUNCS = _handle_funcs()


def reader_prog(rng, tree):
    files = sorted(p for p, t in tree.items() if t[0] == "f")
    dirs = ["/"] + sorted(p for p, t in tree.items() if t[0] == "d")
    ops = []
    for _ in range(rng.choice([2, 3, 4])):
        k = rng.choice(["listdir", "getinfo", "exists", "read", "read", "isdir", "listdir"])
        if k == "listdir":
            ops.append(("listdir", rng.choice(dirs)))
        elif k == "read":
            p = rng.choice(files)
            ops.append(("read", p, rng.choice([0, 1, 511, 512, 700]), rng.choice([1, 512, 513, 2000])))
        else:
            ops.append((k, rng.choice(files + dirs + ["/nope"])))
    return ops


def do_ops(f, ops, hs=None):
    """hs: handles opened beforehand (by the set-up of a program), shared with nobody else: ("hopen", name, path), ("hread", name, offset, n)"""
    out = []
    hs = {} if hs is None else hs
    for op in ops:
        try:
            if op[0] == "hopen":
                hs[op[1]] = f.openbin(op[2], "r")
                out.append(None)
            elif op[0] == "hread":
                hs[op[1]].seek(op[2])
                out.append(bytes(hs[op[1]].read(op[3])).hex())
            elif op[0] == "listdir":
                out.append(sorted(f.listdir(op[1])))
            elif op[0] == "getinfo":
                i = f.getinfo(op[1], namespaces=["details"])
                out.append([i.name, i.is_dir, i.size])
            elif op[0] == "exists":
                out.append(f.exists(op[1]))
            elif op[0] == "isdir":
                out.append(f.isdir(op[1]))
            elif op[0] == "read":
                with f.openbin(op[1], "r") as h:
                    h.seek(op[2])
                    out.append(bytes(h.read(op[3])).hex())
        except Exception as e:  # noqa
            out.append("ERR:" + core.classify_exc(e))
    return out


def mount(img, sched=None, lazy=True):
    dev = TraceDevice(img, writable=False, record_reads=True)
    with warnings.catch_warnings():
        warnings.simplefilter("ignore")
        f = PyFatBytesIOFS(S.SchedDevice(dev, sched) if sched else dev, lazy_load=lazy)
    if sched:
        f._lock = S.SLock(sched, "fs", reentrant=True)
        S.hook_locks(f.fs, sched, {"_PyFat__lock": "dev", "fs_lock": "fsl"})      # file handles take the filesystem lock from here when they are opened
    return f, dev


def one_schedule(ctx, img, progs, solo, policy, line_mode, label, rep, setup=()):
    sc = S.Sched(len(progs), policy)
    f, dev = mount(img, sc)
    hs = {}
    do_ops(f, setup, hs)
    res = S.run_threads(sc, [lambda p=p: do_ops(f, p, hs) for p in progs], pyfat_dir=PYFAT_DIR, line_mode=line_mode, timeout=30)
    ctx.evaluations += 1
    if sc.error:
        if "timeout" in str(sc.error):
            # the harness' own watchdog, not a detected deadlock (those are reported explicitly by the scheduler): not judged
            ctx.notes.append(f"{label}: schedule abandoned by the harness watchdog ({rep.get('preempt') or rep.get('line_level_seed')})")
            ctx.dist["watchdog-abandoned"] += 1
        else:
            ctx.violation(f"{label}: {sc.error}", "schedule-deadlock", rep)
        return sc
    for i, r in enumerate(res):
        got = r[1] if r and r[0] == "ok" else r
        if got != solo[i]:
            k = next((j for j in range(min(len(got), len(solo[i]))) if got[j] != solo[i][j]), None) if isinstance(got, list) else None
            ctx.violation(f"{label}: thread {i} op {progs[i][k] if k is not None else '?'} returned {str(got[k] if k is not None else got)[:80]} "
                          f"instead of its solo result {str(solo[i][k] if k is not None else solo[i])[:80]}",
                          f"reader-result-differs:{progs[i][k][0] if k is not None else 'thread'}", rep)
            return sc
    if sc.switches:
        ctx.nontrivial.add((label, tuple(sorted(rep.get("preempt", {}).items())) if rep.get("preempt") else tuple(sc.trace[:40])))
    return sc


def run(ctx):
    rng = ctx.rng
    for ft in ((12, 32) if ctx.tier == "quick" else (12, 16, 32)):
        img, meta = C13.base_image(rng, ft)
        f0, _ = mount(img)
        r0 = ImplRun.__new__(ImplRun)
        r0.fs = f0
        tree = ImplRun.walk(r0)
        for pi in range(ctx.scale(5, 20)):
            if ctx.time_left() < 15:
                break
            nthreads = rng.choice([2, 2, 3])
            progs = [reader_prog(rng, tree) for _ in range(nthreads)]
            if pi == 0:   # first touch of the same lazily loaded directory + data reads
                progs = [[("listdir", "/dir one"), ("read", "/dir one/inner/deep file.bin", 0, 1700)], [("exists", "/dir one/inner/deep file.bin"), ("read", "/A.TXT", 100, 500)]]
            if pi == 1:   # two readers on the SAME file over several clusters, each through its own handle, at different offsets (C18-m5)
                progs = [[("read", "/dir one/inner/deep file.bin", 0, 1700)], [("read", "/dir one/inner/deep file.bin", 600, 1000), ("read", "/dir one/inner/deep file.bin", 1300, 300)]]
            if pi == 2:   # ... one of them only in the first clusters while the other looks further in, then both everywhere (C18-m6: what one handle
                # learns about the chain must not depend on how far another handle of the file has got)
                progs = [[("read", "/dir one/inner/deep file.bin", 1300, 300), ("read", "/dir one/inner/deep file.bin", 0, 1700)],
                         [("read", "/dir one/inner/deep file.bin", 0, 600), ("read", "/dir one/inner/deep file.bin", 100, 50)]]
            setup = ()
            if pi == 3:   # a handle that is ALREADY open reads while another thread looks into a directory for the first time: the directory scan and the
                # handle share the device (C18-m7: sequential scan without re-seeking + read-only handles outside the filesystem lock)
                setup = (("hopen", "h", "/A.TXT"),)
                progs = [[("listdir", "/dir one"), ("listdir", "/E"), ("getinfo", "/dir one/f07 with long name.txt")], [("hread", "h", 0, 64), ("hread", "h", 300, 200), ("hread", "h", 10, 5)]]
            solo = []
            for p in progs:
                f, _ = mount(img)
                hs0 = {}
                do_ops(f, setup, hs0)
                solo.append(do_ops(f, p, hs0))
            label = f"fat{ft}-prog{pi}"
            rep0 = dict(volume=meta, programs=progs, setup=list(setup))
            # baseline (no pre-emption) gives the number of yield points of thread 0
            sc = one_schedule(ctx, img, progs, solo, S.preempt_policy({}), False, label, dict(rep0, preempt={}), setup=setup)
            n = sc.step
            pts = list(range(1, n + 1))
            cap = ctx.scale(70 if pi > 3 else 600, 400 if pi > 3 else 3000)     # the two fixed programs: every single pre-emption point
            if len(pts) > cap:
                pts = sorted(rng.sample(pts, cap))
            else:
                ctx.extra["exhaustive_single_preemption_programs"] = ctx.extra.get("exhaustive_single_preemption_programs", 0) + 1
            for s in pts:
                one_schedule(ctx, img, progs, solo, S.preempt_policy({s: 0}), False, label, dict(rep0, preempt={s: 0}), setup=setup)
            for _ in range(ctx.scale(15, 150)):
                a, b = sorted(rng.sample(range(1, max(3, n + 20)), 2))
                one_schedule(ctx, img, progs, solo, S.preempt_policy({a: 0, b: rng.choice([0, 1])}), False, label, dict(rep0, preempt={a: 0, b: 1}), setup=setup)
            # one pre-emption at every distinct source line of the in-memory directory tree (FATDirectoryEntry.py: the state readers share and, with
            # lazy loading, mutate) that thread t executes, for each thread t; thorough: at every distinct line of every pyfatfs module (D33)
            # for the two readers of one file (pi == 1): the lines of the handle code and of the chain follower — state reached through the
            # shared directory entry of the file is shared by all its handles (C18-m6: a per-file memo of the chain, appended to by every seek)
            if pi in (0, 1, 2) or ctx.tier == "thorough":
                scb = S.Sched(len(progs), S.preempt_policy({}))
                scb.record_kinds = True
                fb, _ = mount(img, scb)
                hsb = {}
                do_ops(fb, setup, hsb)
                S.run_threads(scb, [lambda p=p: do_ops(fb, p, hsb) for p in progs], pyfat_dir=PYFAT_DIR, line_mode=True, timeout=60)
                scb2 = S.Sched(len(progs), S.kind_preempt_policy(-1, None, first=len(progs) - 1))
                scb2.record_kinds = True
                fb2, _ = mount(img, scb2)
                hsb2 = {}
                do_ops(fb2, setup, hsb2)
                S.run_threads(scb2, [lambda p=p: do_ops(fb2, p, hsb2) for p in progs], pyfat_dir=PYFAT_DIR, line_mode=True, timeout=60)
                for t in range(len(progs)):
                    kinds = dict(scb.kinds.get(t, {}))
                    kinds.update({k: 0 for k in scb2.kinds.get(t, {})})
                    lines = [k for k in kinds if k.startswith("line:")]
                    if ctx.tier == "quick":
                        lines = [k for k in lines if k.split(":")[1] in (TREE_FUNCS if pi not in (1, 2) else HANDLE_FUNCS)]
                    cap_l = ctx.scale(160, 1500)
                    if len(lines) > cap_l:
                        lines = rng.sample(lines, cap_l)
                    for k in lines:
                        one_schedule(ctx, img, progs, solo, S.kind_preempt_policy(t, k, first=t), True, label, dict(rep0, line_preempt=[t, k]), setup=setup)
                        ctx.dist["line-preemption"] += 1
            # (and random line-level schedules)
            for k in range(ctx.scale(6, 80)):
                seed = rng.randrange(1 << 30)
                one_schedule(ctx, img, progs, solo, S.random_policy(random.Random(seed), p=rng.choice([0.02, 0.1, 0.3])), True, label, dict(rep0, line_level_seed=seed), setup=setup)
            ctx.sample(dict(volume=f"FAT{ft}", programs=progs, yield_points=n))
        # lock discipline on the real trace: every device seek is followed by its read before another thread's access (checked by construction of
        # the result comparison) and each solo op's reads lie between acquire and release of the device lock
        sc = S.Sched(1, S.preempt_policy({}))
        f, dev = mount(img, sc)
        lock = f.fs._PyFat__lock
        bad = []
        orig_seek, orig_read = dev.seek, dev.read

        def chk_seek(*a):
            if lock.owner is None:
                bad.append("seek outside the device lock")
            return orig_seek(*a)

        def chk_read(*a):
            if lock.owner is None:
                bad.append("read outside the device lock")
            return orig_read(*a)
        dev.seek, dev.read = chk_seek, chk_read
        S.run_threads(sc, [lambda: do_ops(f, [("listdir", "/dir one"), ("read", "/A.TXT", 0, 600), ("getinfo", "/E/x.bin"), ("listdir", "/")])], timeout=30)
        ctx.traces += 1
        if bad:
            ctx.tie_break("reader operations are not well-locked: " + bad[0], dict(count=len(bad)))


def extra_search(ctx):
    run(ctx)
