"""C01 — namespace operations behave like a reference filesystem (fs.memoryfs.MemoryFS is the
simple in-memory reference; results, PyFilesystem2 error classes and the final tree are compared)."""
import random
import warnings

import fs.errors
from fs.memoryfs import MemoryFS

from .. import core, gen, history
from ..core import ImplRun, ScriptedClock, clock_tuple, classify_exc
from . import _hist

LEVEL_NOTE = ("refinement theorems are about the model's lookup / create / remove layer and the allocator's exact ENOSPC criterion; the "
              "implementation is compared op by op with the reference filesystem, and with the model on primitive programs")
TRUSTED = ["Coq 8.16.1 kernel", "tools/translate.py", "extraction + driver", "fs.memoryfs.MemoryFS 2.4.16 as the reference semantics of PyFilesystem2",
           "names_ok: the pool holds no two names equal ignoring case and no name of the form of a generated alias (XXXXXX~n.EXT)"]
RULE = ("random programs over makedir/makedirs/create/touch/writebytes/appendbytes/remove/removedir/removetree/copy/move/listdir/exists/isdir/"
        "isfile/getinfo/getsize, 70% aimed at existing paths, 30% at missing / wrong-type paths, nesting to 4 levels, directories grown over "
        "several clusters; non-trivial = >= 6 distinct op kinds and >= 1 error result; distinct = (volume, op-kind sequence)")

OPS = ["makedir", "makedirs", "create", "touch", "writebytes", "appendbytes", "readbytes", "remove", "removedir", "removetree", "copy", "move",
       "listdir", "exists", "isdir", "isfile", "getinfo", "getsize"]


def ref_do(m, op):
    k = op[0]
    if k == "makedir":
        m.makedir(op[1], recreate=bool(op[2]) if len(op) > 2 else False)
        return None
    if k == "makedirs":
        m.makedirs(op[1], recreate=bool(op[2]) if len(op) > 2 else False)
        return None
    if k == "create": return bool(m.create(op[1], wipe=bool(op[2]) if len(op) > 2 else False))
    if k == "touch": return m.touch(op[1])
    if k == "writebytes": return m.writebytes(op[1], bytes.fromhex(op[2]))
    if k == "appendbytes": return m.appendbytes(op[1], bytes.fromhex(op[2]))
    if k == "readbytes": return bytes(m.readbytes(op[1]))
    if k == "remove": return m.remove(op[1])
    if k == "removedir": return m.removedir(op[1])
    if k == "removetree": return m.removetree(op[1])
    if k == "copy": return m.copy(op[1], op[2], overwrite=bool(op[3]) if len(op) > 3 else False)
    if k == "move": return m.move(op[1], op[2], overwrite=bool(op[3]) if len(op) > 3 else False)
    if k == "listdir": return sorted(m.listdir(op[1]))
    if k == "exists": return m.exists(op[1])
    if k == "isdir": return m.isdir(op[1])
    if k == "isfile": return m.isfile(op[1])
    if k == "getsize": return m.getsize(op[1])
    if k == "getinfo":
        i = m.getinfo(op[1], namespaces=["details"])
        return [i.name, i.is_dir, None if i.is_dir else i.size]
    raise ValueError(k)


def gen_program(rng, n, pool):
    dirs, files = ["/"], []
    ops = []
    for _ in range(n):
        k = rng.choice(OPS)
        d = rng.choice(dirs)
        j = lambda a, b: a.rstrip("/") + "/" + b  # noqa
        exist_f = rng.choice(files) if files else j(d, rng.choice(pool))
        exist_d = rng.choice(dirs)
        sub_d = rng.choice(dirs[1:]) if len(dirs) > 1 else "/nodir"     # the reference treats '/' specially for file operations
        newp = j(d, rng.choice(pool))
        bad = rng.random() < 0.3
        if k == "makedir":
            p = j(d, rng.choice(gen.DIRS)) if not bad else rng.choice([exist_f, "/nodir/x", exist_d])
            # (recreate on an existing FILE: DirectoryExists per the documentation, DirectoryExpected in the reference: not generated)
            ops.append([k, p, int(rng.random() < 0.2 and p not in files)])
            if p not in dirs and p not in files and not bad:
                dirs.append(p)
        elif k == "makedirs":
            p = j(j(d, rng.choice(gen.DIRS)), rng.choice(gen.DIRS)) if d.count("/") < 3 else j(d, "X")
            ops.append([k, p, int(rng.random() < 0.5)])
            par = p.rsplit("/", 1)[0]
            for q in (par, p):
                if q not in dirs and q not in files:
                    dirs.append(q)
        elif k in ("create", "touch"):
            p = newp if not bad else rng.choice(["/nodir/f.txt", exist_f])      # (on an existing directory the reference answers False, pyfatfs FileExpected: both defensible, not generated)
            ops.append([k, p] + ([int(rng.random() < 0.3)] if k == "create" else []))
            if p not in dirs and p not in files and not p.startswith("/nodir"):
                files.append(p)
        elif k in ("writebytes", "appendbytes"):
            p = rng.choice([newp, exist_f]) if not bad else rng.choice([exist_d, "/nodir/f.bin"])
            size = rng.choice([0, 1, 100, 511, 512, 513, 1500, 4096])
            ops.append([k, p, bytes(rng.randrange(256) for _ in range(size)).hex()])
            if p not in dirs and p not in files and not p.startswith("/nodir"):
                files.append(p)
        elif k in ("readbytes", "getsize", "getinfo", "exists", "isdir", "isfile"):
            p = rng.choice([exist_f, exist_d, newp, exist_f + "/x", "/"])
            ops.append([k, p])
        elif k == "remove":
            p = exist_f if not bad else rng.choice([sub_d, "/missing.txt"])
            ops.append([k, p])
            if p in files:
                files.remove(p)
        elif k == "removedir":
            p = exist_d if not bad else rng.choice([exist_f, "/missing"])
            ops.append([k, p])
        elif k == "removetree":
            p = exist_d if rng.random() < 0.6 else rng.choice([exist_f, "/missing"])
            if p == "/" and rng.random() < 0.8:
                continue
            ops.append([k, p])
            if p in dirs:
                dirs[:] = [x for x in dirs if not (x == p or x.startswith(p.rstrip("/") + "/"))] or ["/"]
                files[:] = [x for x in files if not x.startswith(p.rstrip("/") + "/")]
                if "/" not in dirs:
                    dirs.insert(0, "/")
        elif k in ("copy", "move"):
            src = exist_f if not bad else rng.choice([sub_d, "/missing.txt"])
            dst = rng.choice([newp, exist_f, j(rng.choice(dirs), "copy of " + rng.choice(pool)[:20])])
            if src not in files:
                dst = j(rng.choice(dirs), "fresh " + str(len(ops)))      # one fault at a time: the order of checks is unspecified
            ops.append([k, src, dst, int(rng.random() < 0.5)])
            if dst not in files and dst not in dirs:
                files.append(dst)
            if k == "move" and src in files and not bad:
                files.remove(src)
        elif k == "listdir":
            ops.append([k, rng.choice([exist_d, exist_d, exist_f, "/missing"])])
    return ops


def file_ancestor(ref, op):
    for p in op[1:3]:
        if not (isinstance(p, str) and p.startswith("/")):
            continue
        parts = p.strip("/").split("/")
        for k in range(1, len(parts)):
            try:
                if ref.isfile("/" + "/".join(parts[:k])):
                    return True
            except Exception:  # noqa
                return False
    return False


def free_clusters(ir):
    pf = ir.fs.fs
    tot = pf._get_total_sectors() - pf.first_data_sector
    maxc = tot // pf.bpb_header["BPB_SecPerClus"] + 1
    return sum(1 for c in range(2, min(maxc + 1, len(pf.fat))) if pf.fat[c] == 0), pf.bytes_per_cluster


def ref_used_upper(ref, bpc, fat32):
    """an upper bound on the clusters the reference tree needs on a FAT volume: every file max(1, ceil(size / bpc)) (an emptied file may keep
    one cluster), every directory the slots of '.' / '..' and of its children (1 + ceil(len / 13) each) plus one cluster of slack"""
    used = 0
    for p in ref.walk.files():
        used += max(1, -(-ref.getsize(p) // bpc))
    dirs = list(ref.walk.dirs()) + (["/"] if fat32 else [])
    for d in dirs:
        slots = 2 + sum(2 + (len(n) + 12) // 13 for n in ref.listdir(d))
        used += -(-slots * 32 // bpc) + 1
    return used


def run_one(ctx, label, img, meta, ops, mnt):
    rep = dict(volume=meta, volume_label=label, mount=mnt, ops=[o if o[0] not in ("writebytes", "appendbytes") else [o[0], o[1], f"<{len(o[2]) // 2} bytes>"] for o in ops])
    ir = ImplRun(img, encoding=mnt.get("encoding", "ibm437"), lazy_load=mnt.get("lazy_load", True))
    ref = MemoryFS()
    with ScriptedClock() as clk:
        res, _ = ir.mount()
        if res[0] != "ok":
            ctx.violation(f"{label}: mount failed: {res}", "mount-failed", rep)
            return
        kinds = set()
        nerr = 0
        for i, op in enumerate(ops):
            clk.t = clock_tuple(i + 1)
            ctx.dist[op[0]] += 1
            kinds.add(op[0])
            if op[0] == "remove-by-alias":
                # ["remove-by-alias", dir, name]: the entry is removed through its 8.3 alias, as the independent reader sees the alias in the
                # live image; the reference removes the name itself.  What any reference answers: the removed path does not exist afterwards
                try:
                    sv = fatspec_volume(ir.dev.volume(), meta)
                    loc = sv.root_loc()
                    for seg in [x for x in op[1].split("/") if x]:
                        loc = [e for e in sv.read_dir(loc, mnt.get("encoding", "ibm437")) if e["name"] == seg][0]["cluster"]
                    alias = [e for e in sv.read_dir(loc, mnt.get("encoding", "ibm437")) if e["name"] == op[2]][0]["short"]
                except Exception as e:  # noqa
                    ctx.violation(f"{label}: op {i}: the independent reader cannot find {op[2]!r} in {op[1]} of the live image: {e}", "alias-lookup", dict(rep, at=i))
                    return
                ares, _ = ir.op(["remove", op[1] + "/" + alias])
                ref.remove(op[1] + "/" + op[2])
                eres, _ = ir.op(["exists", op[1] + "/" + alias])
                nres, _ = ir.op(["exists", op[1] + "/" + op[2]])
                if ares[0] != "ok" or eres != ("ok", False) or nres != ("ok", False):
                    ctx.violation(f"{label}: op {i}: remove({op[1]}/{alias}) (the alias of {op[2]!r}) -> {ares}; afterwards exists(alias) = {eres}, exists(name) = {nres}",
                                  "remove-by-alias", dict(rep, at=i, alias=alias))
                    return
                continue
            if op[0] in ("create", "touch"):
                try:
                    if ref.isdir(op[1]):
                        # create / touch on an existing DIRECTORY: the reference answers False / succeeds, pyfatfs raises FileExpected; the
                        # documentation is silent, both are defensible: not part of the comparison (the generator avoids it where it can tell)
                        ctx.dist["skipped:create-on-directory"] += 1
                        continue
                except Exception:  # noqa
                    pass
            if op[0] in ("makedir", "makedirs") and len(op) > 2 and op[2]:
                try:
                    if ref.isfile(op[1]):
                        # makedir(recreate=True) on an existing FILE: DirectoryExists per the documentation, DirectoryExpected in the reference
                        ctx.dist["skipped:recreate-on-file"] += 1
                        continue
                except Exception:  # noqa
                    pass
            if op[0] in ("copy", "move", "makedir") and file_ancestor(ref, op):
                # a proper ancestor of an operand is a FILE: the documented answer of copy / move / makedir is "resource not found";
                # the reference has quirks there (it moves a file "into" a file, trips an internal assertion in makedir), so it is not consulted
                rres = ("err", "RNF")
                ctx.dist["file-ancestor"] += 1
            else:
                try:
                    rres = ("ok", ref_do(ref, op))
                except Exception as e:  # noqa
                    rres = ("err", classify_exc(e))
            ires, _ = ir.op(op)
            if ires[0] == "ok" and op[0] == "listdir":
                ires = ("ok", sorted(ires[1]))
            if ires[0] == "ok" and op[0] == "getinfo":
                ires = ("ok", [ires[1][0], ires[1][1], None if ires[1][1] else ires[1][2]])
                if op[1].strip("/") == "":
                    ires = ("ok", ["", True, None])
                    rres = ("ok", ["", True, None]) if rres[0] == "ok" else rres
            if ires[0] == "err":
                nerr += 1
                ctx.dist["err:" + str(ires[1])] += 1
            if ires[0] == "err" and ires[1] == "ENOSPC" and rres[0] == "ok":
                free, bpc = free_clusters(ir)
                need = (len(bytes.fromhex(op[2])) + bpc - 1) // bpc + 3 if op[0] in ("writebytes", "appendbytes") else 4
                if op[0] in ("copy", "move"):
                    need += 10
                pf = ir.fs.fs
                root_free = 1 << 30
                if pf.fat_type != 32:
                    used = sum(len(bytes(d)) // 32 for d in pf.root_dir._get_entries_raw())
                    root_free = pf.bpb_header["BPB_RootEntCnt"] - used
                # the entry that needs a slot is the LAST path operand (the destination of copy / move)
                paths = [p for p in op[1:3] if isinstance(p, str) and p.startswith("/")]
                target_in_root = bool(paths) and paths[-1].count("/") <= 1
                if op[0] == "makedirs":
                    # makedirs creates the missing ancestors too: the first one goes into the (fixed-size) root region
                    first = "/" + op[1].strip("/").split("/")[0]
                    try:
                        target_in_root = target_in_root or not ir.fs.exists(first)
                    except Exception:  # noqa
                        pass
                if free >= need + 2 and not (target_in_root and root_free < 22):
                    ctx.violation(f"{label}: {op[:2]} refused with ENOSPC while {free} clusters are free ({need} needed at most)", "spurious-enospc:" + op[0], dict(rep, at=i))
                else:
                    # the same by the REFERENCE's accounting (clusters leaked by earlier operations are not free in the FAT, but the tree the
                    # reference holds — before this call, which it has already applied: the call's own need is part of `need` — does not use them)
                    try:
                        tot = pf._get_total_sectors() - pf.first_data_sector
                        cap = tot // pf.bpb_header["BPB_SecPerClus"]
                        ref_free = cap - ref_used_upper(ref, bpc, pf.fat_type == 32)
                    except Exception:  # noqa
                        ref_free = -1
                    if ref_free >= need + 6 and not (target_in_root and root_free < 22):
                        ctx.violation(f"{label}: {op[:2]} refused with ENOSPC although the tree needs at most {cap - ref_free} of {cap} clusters "
                                      f"(the FAT shows only {free} free: clusters leaked)", "spurious-enospc:leak:" + op[0], dict(rep, at=i))
                return  # the reference has no capacity limit: stop comparing this program here
            if op[0] in ("copy", "move") and ires[0] == "err" and rres[0] == "err" and ires[1] != rres[1]:
                # two faults at once (source not a file / destination exists / destination directory missing): the order in which they are
                # detected is unspecified; either documented class is accepted (the generator avoids this where it can tell)
                faults = set()
                try:
                    if not ref.isfile(op[1]):
                        faults.add("FEXP" if ref.exists(op[1]) else "RNF")
                    if ref.exists(op[2]) and not (len(op) > 3 and op[3]):
                        faults.add("DESTEX")
                    if not ref.isdir(op[2].rsplit("/", 1)[0] or "/"):
                        faults.add("RNF")
                except Exception:  # noqa
                    faults = set()
                if len(faults) >= 2 and ires[1] in faults and rres[1] in faults:
                    ctx.dist["two-faults"] += 1
                    continue
            if core.canon(list(ires)) != core.canon(list(rres)):
                what = f"{label}: op {i} {[str(x)[:60] for x in op[:3]]}: pyfatfs {str(core.canon(list(ires)))[:120]} vs reference {str(core.canon(list(rres)))[:120]}"
                ctx.violation(what, f"differs:{op[0]}:{ires[1] if ires[0] == 'err' else 'ok'}:{rres[1] if rres[0] == 'err' else 'ok'}", dict(rep, at=i))
                return
        # final trees
        try:
            w = ir.walk()
        except Exception as e:  # noqa
            ctx.violation(f"{label}: final walk raised {type(e).__name__}: {e}", "final-walk-raises", rep)
            return
        rw = {}
        for p in ref.walk.dirs():
            rw[p] = ("d",)
        for p in ref.walk.files():
            b = ref.readbytes(p)
            rw[p] = ("f", len(b), b)
        d = history.diff_trees(w, rw, "pyfatfs", "reference")
        if d:
            ctx.violation(f"{label}: final tree differs from the reference: {d[0]}", "final-tree", dict(rep, diffs=d[:8]))
        # ... and the same tree is what a fresh mount of the device shows (no handle is open at the end of a program): the final tree of the
        # property is the one the volume holds, not only the one in memory (C01-m6: a directory that shrank kept a stale slot behind its new end)
        if not d and not ir.handles:
            try:
                fw_, _ = history.remount_walk(ir.dev.volume(), 0, mnt.get("encoding", "ibm437"), True)
                d2 = history.diff_trees(fw_, rw, "fresh mount", "reference")
            except Exception as e:  # noqa
                d2 = [f"fresh mount of the device raised {type(e).__name__}: {e}"]
            if d2:
                ctx.violation(f"{label}: the final tree on the device differs from the reference: {d2[0]}", "final-tree-device", dict(rep, diffs=d2[:8]))
                d = d2
        # "never refused for lack of space while clearly enough clusters are free": after the history, one file of (free - 3) clusters
        free, bpc = free_clusters(ir)
        if 6 <= free <= 4000 and not d:
            r1, _ = ir.op(["makedir", "/fill dir"])
            r2, _ = ir.op(["writebytes", "/fill dir/ALL.BIN", (b"\x5a" * ((free - 4) * bpc)).hex()])
            ctx.dist["fill-after-history"] += 1
            if r2[0] == "err" and r2[1] == "ENOSPC" and r1[0] == "ok":
                ctx.violation(f"{label}: after the history {free} clusters are free, but a file of {free - 4} clusters is refused with ENOSPC",
                              "spurious-enospc:fill", dict(rep, free_clusters=free))
            elif r2[0] == "ok":
                r3, _ = ir.op(["readbytes", "/fill dir/ALL.BIN"])
                if r3[0] != "ok" or r3[1] != b"\x5a" * ((free - 4) * bpc):
                    ctx.violation(f"{label}: the file filling the volume does not read back", "fill-readback", rep)
        if len(kinds) >= 6 and nerr >= 1:
            ctx.nontrivial.add((label, tuple(o[0] for o in ops)))
        ctx.sample(dict(volume=label, ops=[o[:2] for o in ops[:10]], n_ops=len(ops), errors=nerr))
        with warnings.catch_warnings():
            warnings.simplefilter("ignore")
            ir.fs.close()


def fatspec_volume(img, meta):
    from .. import fatspec
    return fatspec.Volume(img, force_ft=history.force_ft(meta))


def names_ok_pool(rng, enc):
    pool = [n for n in gen.name_pool(rng) if not _hist.quarantined_name(n, enc)]
    seen, out = {}, []
    for n in pool:
        u = n.upper()
        if u in seen and not (n != u and seen[u] != u):      # case variants only if BOTH spellings need a long name
            continue
        seen.setdefault(u, n)
        out.append(n)
    return out


def scripted(i, bpc, count=0, rootent=0):
    """minimised past disagreements and targeted histories, run before the random programs"""
    k = i % 6
    if k == 5:     # a directory grows by one entry into a new cluster and shrinks back to EXACTLY the clusters before (no room for an end mark): what
        # was removed is gone from the volume too — as the last operations of the history (C01-m6)
        n = max(1, min(bpc // 32 - 2, 254))
        ops = [["makedir", "/D"]] + [["create", f"/D/F{q:03d}.TXT"] for q in range(n)]
        return ops + [["writebytes", "/D/G.BIN", "67" * 40], ["remove", "/D/G.BIN"], ["listdir", "/D"], ["makedir", "/D/SUB"], ["removedir", "/D/SUB"], ["listdir", "/D"]]
    if k == 4:     # the fixed root region of FAT12/16 filled with LONG names (4 slots each) beyond its capacity: every request is either carried out
        # or refused, and the file in the first data cluster — right behind the root region — keeps its bytes (C01-m5)
        if not 0 < rootent <= 512:
            return [["listdir", "/"]]
        ops = [["writebytes", "/FIRST.BIN", "f1" * (2 * bpc)]]
        for q in range(rootent // 4 + 3):
            ops.append(["create", f"/a long name that needs three slots {q:03d}.txt"])
        return ops + [["readbytes", "/FIRST.BIN"], ["listdir", "/"], ["remove", "/a long name that needs three slots 000.txt"], ["readbytes", "/FIRST.BIN"]]
    if k == 3:     # churn: a file is written, emptied (it may keep one cluster) and removed, more often than the volume has clusters; then
        # most of the volume is asked for in one piece: nothing may have leaked (C01-m4)
        if not 20 <= count <= 400:
            return [["listdir", "/"]]
        ops = []
        for r in range(count + 8):
            ops += [["writebytes", "/churn.bin", "c5" * (bpc + 1)], ["writebytes", "/churn.bin", ""], ["remove", "/churn.bin"]]
        return ops + [["writebytes", "/after churn.bin", "a7" * ((count * 3 // 5) * bpc)], ["getsize", "/after churn.bin"], ["listdir", "/"]]
    if k == 0:     # case variants that both carry a long name are distinct entries; removing one must not touch the other
        return [["makedir", "/cs"], ["writebytes", "/cs/nOtes.txt", "aa" * 40], ["writebytes", "/cs/Notes.txt", "bb" * 50], ["makedir", "/cs/sUb"], ["makedir", "/cs/Sub"],
                ["remove", "/cs/Notes.txt"], ["readbytes", "/cs/nOtes.txt"], ["listdir", "/cs"], ["removedir", "/cs/Sub"], ["isdir", "/cs/sUb"], ["listdir", "/cs"],
                ["writebytes", "/cs/Readme.txt", "cc" * 30], ["writebytes", "/cs/readme.txt", "dd" * 20], ["writebytes", "/cs/reAdme.txt", "ee" * 10],
                ["remove-by-alias", "/cs", "Readme.txt"], ["listdir", "/cs"], ["readbytes", "/cs/readme.txt"], ["remove-by-alias", "/cs", "reAdme.txt"],
                ["readbytes", "/cs/readme.txt"], ["listdir", "/cs"], ["removetree", "/cs"], ["exists", "/cs"]]
    if k == 1:     # a file regrown into the hole below its head cluster, then removed: the freed clusters must be allocatable again
        return [["writebytes", "/BIG.BIN", "11" * (30 * bpc)], ["writebytes", "/SMALL.BIN", "22" * bpc], ["remove", "/BIG.BIN"],
                ["appendbytes", "/SMALL.BIN", "33" * (20 * bpc)], ["getsize", "/SMALL.BIN"], ["remove", "/SMALL.BIN"], ["listdir", "/"]]
    return [["makedirs", "/g/h/i"], ["writebytes", "/g/h/i/one.txt", "01" * (3 * bpc + 5)], ["copy", "/g/h/i/one.txt", "/g/two.txt"], ["move", "/g/two.txt", "/g/h/three.txt"],
            ["removetree", "/g/h/i"], ["listdir", "/g/h"], ["readbytes", "/g/h/three.txt"]]


def after_refusal_cases(ctx, vols, built):
    """one request is refused because the volume really is too small for it; what fits afterwards must be carried out (C01-m10: the allocation
    hint was left at the end of the table by the refused scan, every later request of the mount was refused)"""
    from ..core import ImplRun, ScriptedClock
    for label, thunk in vols:
        if label not in built:
            built[label] = thunk()
        img, meta = built[label]
        v = fatspec_volume(img, meta)
        if not 60 <= v.count <= 70000:
            continue
        for lazy in (False, True):
            ctx.evaluations += 1
            ir = ImplRun(img, encoding="ibm437", lazy_load=lazy)
            with ScriptedClock():
                if ir.mount()[0][0] != "ok":
                    continue
                pf = ir.fs.fs
                free = sum(1 for c in range(2, min(v.count + 2, len(pf.fat))) if pf.fat[c] == 0)
                ops = [["writebytes", "/KEEP.BIN", "6b" * (2 * v.bpc)], ["writebytes", "/HUGE.BIN", "00" * ((free + 3) * v.bpc)]]
                r0, _ = ir.op(ops[0])
                r1, _ = ir.op(ops[1])
                if r0[0] != "ok" or r1[0] != "err":
                    continue        # no room for the setup / the volume took it: nothing to judge here
                ctx.nontrivial.add(("after-refusal", label, lazy))
                shown = [ops[0][:2], ["writebytes", "/HUGE.BIN", f"<{free + 3} clusters>"]]
                for op in (["remove", "/HUGE.BIN"],):
                    if ir.op(["exists", "/HUGE.BIN"])[0] == ("ok", True):
                        ir.op(op)
                        shown.append(op)
                free2 = sum(1 for c in range(2, min(v.count + 2, len(pf.fat))) if pf.fat[c] == 0)
                follow = [["writebytes", "/SMALL.BIN", "51" * (3 * v.bpc)], ["makedir", "/after"], ["writebytes", "/after/x.bin", "52" * (v.bpc + 1)]]
                for op in follow:
                    r, _ = ir.op(op)
                    shown.append([op[0], op[1]])
                    if r[0] != "ok" and free2 >= 12:
                        ctx.violation(f"{label}: after a request for {free + 3} clusters was refused ({r1[1]}; {free} were free), {op[:2]} is refused too ({r[1]}) "
                                      f"while {free2} clusters are free", "spurious-enospc:after-refusal:" + op[0], dict(volume=meta, lazy_load=lazy, ops=shown))
                        break
                else:
                    got = ir.op(["readbytes", "/SMALL.BIN"])[0]
                    if free2 >= 12 and (got[0] != "ok" or got[1] != b"\x51" * (3 * v.bpc)):
                        ctx.violation(f"{label}: the file written after a refused request does not read back", "after-refusal:readback", dict(volume=meta, lazy_load=lazy, ops=shown))
                ir.op(["closefs"])


def run(ctx):
    vols = gen.volumes(ctx.tier)
    built = {}
    after_refusal_cases(ctx, vols, built)
    for i in range(len(vols) * 6):
        label, thunk = vols[i % len(vols)]
        if label in ("build32-high",) and ctx.tier == "quick":
            continue
        if label not in built:
            built[label] = thunk()
        img, meta = built[label]
        v = fatspec_volume(img, meta)
        if v.count < 60:
            continue
        ctx.evaluations += 1
        ctx.dist["scripted"] += 1
        run_one(ctx, label, img, meta, scripted(i // len(vols), v.bpc, v.count, v.rootent if v.ft != 32 else 0), dict(encoding="ibm437", lazy_load=bool(i % 2)))
    for i in range(ctx.scale(40, 800)):
        if ctx.time_left() < 20:
            break
        label, thunk = vols[i % len(vols)]
        if label not in built:
            built[label] = thunk()
        img, meta = built[label]
        rng = random.Random(ctx.rng.randrange(1 << 62))
        mnt = dict(encoding=rng.choice(["ibm437", "cp850"]), lazy_load=bool(i % 2))
        ops = gen_program(rng, ctx.scale(40, 120), names_ok_pool(rng, mnt["encoding"]))
        ctx.evaluations += 1
        ctx.dist["vol:" + label] += 1
        run_one(ctx, label, img, meta, ops, mnt)
    # the tie on primitive programs
    _hist.run_histories(ctx, ("internal",), nprog=ctx.scale(8, 80), nops=ctx.scale(30, 60))


def extra_search(ctx):
    run(ctx)
