"""C10 — a read-only mount never writes and serves every read."""
import os
import random
import warnings

from .. import core, fatspec, gen, history, tie
from ..core import ImplRun, Model, ScriptedClock, clock_tuple, TraceDevice
from pyfatfs.PyFatFS import PyFatFS
from pyfatfs.PyFatFSOpener import PyFatFSOpener

LEVEL_NOTE = ("theorem C10_ro: every device write of the model goes through write_at, which refuses when the read-only flag is set, so no "
              "operation of a read-only state logs a write and every mutating operation returns an error with the state unchanged; tie: results "
              "and (empty) write logs of read-only runs equal the model's")
TRUSTED = ["Coq 8.16.1 kernel", "tools/translate.py", "extraction + driver", "'not writable' is what fp.writable() reports; a temporary file is used for read_only=True"]
RULE = ("images (clean, dirty by boot flag, dirty by FAT[1] bit, both) with a populated tree, mounted read-only through a non-writable stream and "
        "through read_only=True; programs mixing every read call with every mutating call; checked: zero device write calls, bytes identical after "
        "close, each mutating call rejected, all reads equal the reads of the same image before the rejected calls; opener parameter conversion. "
        "non-trivial = program with >= 4 rejected mutations and >= 4 reads; distinct = (volume, dirty variant, op sequence)")


def populated(label, thunk, rng):
    img, meta = thunk()
    ops = gen.namespace_program(rng, nops=25, pool=[n for n in gen.name_pool(rng, big=False)][:18])
    ir = ImplRun(img)
    with ScriptedClock() as clk:
        ir.mount()
        for i, op in enumerate(ops):
            clk.t = clock_tuple(i)
            ir.op(op)
        # a file over several clusters: the target of the rejected open('w') / truncate below
        # ... and a file without any cluster (C10-m6)
        for op in (["open", "pm", "/MULTI.BIN", "w"], ["write", "pm", "6d" * 5000], ["hclose", "pm"], ["create", "/EMPTY.TXT"]):
            ir.op(op)
        for h in list(ir.handles):
            ir.op(["hclose", h])
        ir.op(["closefs"])
    return ir.dev.volume(), meta


def make_dirty(img, how, ft):
    b = bytearray(img)
    v = fatspec.Volume(img, force_ft=ft if ft == 32 else None)
    if how in ("boot", "both"):
        b[65 if v.ft == 32 else 37] |= 1
    if how in ("fat", "both") and v.ft != 12:
        for k in range(v.nfats):
            base = (v.rsvd + k * v.fatsz) * v.bps
            if v.ft == 16:
                b[base + 3] &= 0x7F
            else:
                b[base + 7] &= 0xF7
    return bytes(b)


MUT = lambda paths, rng: [  # noqa
    ["makedir", "/newdir"], ["create", "/newfile.txt"], ["remove", rng.choice(paths["f"] or ["/x"])], ["removedir", rng.choice(paths["d"] or ["/x"])],
    ["removetree", rng.choice(paths["d"] or ["/x"])], ["create", rng.choice(paths["f"] or ["/x"]), 1],
    ["setinfo", rng.choice(paths["f"] or ["/x"]), 1704067200, 1704067300, None, (2024, 1, 1, 0, 0, 0), (2024, 1, 1, 0, 1, 40), None],
    ["open", "m1", rng.choice(paths["f"] or ["/x"]), "w"], ["open", "m2", rng.choice(paths["f"] or ["/x"]), "a"], ["open", "m3", "/brandnew.bin", "x"],
    ["open", "m4", rng.choice(paths["f"] or ["/x"]), "r+"], ["write", "m4", "41424344"], ["truncate", "m4", 0], ["hclose", "m4"],
    ["open", "m5", "/MULTI.BIN", "w"], ["open", "m6", "/MULTI.BIN", "r+"], ["truncate", "m6", 700], ["truncate", "m6", 9000], ["write", "m6", "4d" * 3000], ["hclose", "m6"]]


def run(ctx):
    vols = [v for v in gen.volumes(ctx.tier) if v[0] in ("mkfs12-64k", "build12-spc2-nf1", "mkfs16-8500", "build32-tiny", "build16-4100", "mkfs32", "build32-real")]
    m = Model()
    try:
        for i in range(ctx.scale(16, 200)):
            if ctx.time_left() < 10:
                break
            label, thunk = vols[i % len(vols)]
            rng = random.Random(ctx.rng.randrange(1 << 62))
            base, meta = populated(label, thunk, rng)
            how = ["clean", "boot", "fat", "both"][(i // len(vols)) % 4]
            img = make_dirty(base, how, meta.get("ft")) if how != "clean" else base
            # what a read-write mount of the same image reports (reference for reads)
            want_tree, _ = history.remount_walk(img, 0, "ibm437", True, read_only=False)
            paths = {"f": sorted(p for p, t in want_tree.items() if t[0] == "f"), "d": sorted(p for p, t in want_tree.items() if t[0] == "d")}
            reads = [["listdir", "/"]] + [["listdir", d] for d in paths["d"][:3]] + [["getinfo", p] for p in (paths["f"] + paths["d"])[:4]] + \
                    [["exists", "/nope"], ["getsize", rng.choice(paths["f"] or ["/nope"])], ["open", "r1", rng.choice(paths["f"] or ["/nope"]), "r"],
                     ["read", "r1", -1], ["seek", "r1", 0, 0], ["read", "r1", 10], ["hclose", "r1"]]
            fixed = [q for q in ("/MULTI.BIN", "/EMPTY.TXT") if q in paths["f"]]
            for fi, p in enumerate(fixed + [q for q in paths["f"] if q not in fixed][:5]):   # every byte of some files
                reads = [["open", f"a{fi}", p, "r"], ["read", f"a{fi}", -1], ["hclose", f"a{fi}"]] + reads if fi == 0 else \
                    reads + [["open", f"a{fi}", p, "r"], ["read", f"a{fi}", -1], ["hclose", f"a{fi}"]]
            muts = MUT(paths, rng)
            ops = []
            for k in range(max(len(muts), len(reads))):
                if k < len(reads):
                    ops.append(reads[k])
                if k < len(muts):
                    ops.append(muts[k])
            # what the rejected calls tried to create does not exist afterwards, and every listing is the one of the untouched image
            ops += reads + [["exists", "/newdir"], ["exists", "/newfile.txt"], ["exists", "/brandnew.bin"], ["listdir", "/"]] + [["closefs"]]
            rep = dict(volume=meta, volume_label=label, dirty=how, mount=dict(read_only=True), ops=ops)
            ctx.evaluations += 1
            ctx.dist["dirty:" + how] += 1
            rejected = [0]
            read_results = {}

            def on_step(k, op, ires, ir):
                ctx.dist[op[0]] += 1
                if op[0] == "listdir" and ires[0] == "ok":
                    base = op[1].rstrip("/")
                    want = sorted(p[len(base) + 1:] for p in want_tree if p.startswith(base + "/") and "/" not in p[len(base) + 1:])
                    if sorted(ires[1]) != want:
                        extra = sorted(set(ires[1]) ^ set(want))
                        ctx.violation(f"{label}/{how}: listdir {op[1]!r} of the read-only mount differs from the image's tree: {extra[:3]}", "ro-listing-differs", dict(rep, at=k))
                if op[0] == "exists" and op[1] in ("/newdir", "/newfile.txt", "/brandnew.bin") and ires == ("ok", True):
                    ctx.violation(f"{label}/{how}: {op[1]!r}, whose creation was rejected, exists on the read-only mount", "ro-phantom-entry", dict(rep, at=k))
                if op[0] in ("makedir", "create", "remove", "removedir", "removetree", "setinfo", "write", "truncate") or \
                        (op[0] == "open" and op[3] in ("w", "w+", "x", "x+")):     # opening an existing file for append / update changes nothing by itself
                    if ires[0] == "ok" and not (op[0] == "create" and ires[1] is False):
                        ctx.violation(f"{label}/{how}: mutating call {op[:3]} succeeded on a read-only mount", f"ro-mutation-accepted:{op[0]}", dict(rep, at=k))
                    else:
                        rejected[0] += 1
                        if str(ires[1]).startswith("INTERNAL"):
                            ctx.violation(f"{label}/{how}: {op[:2]} rejected with internal exception {ires[1]}", f"ro-internal:{op[0]}", dict(rep, at=k))
                elif op[0] in ("listdir", "getinfo", "exists", "getsize", "read") and (ires[0] == "ok" or str(op) in read_results) \
                        and not (op[0] == "read" and op[1].startswith("m")):
                    key = str(op)
                    v = core.canon(list(ires))          # an answer that turns into an error is a changed answer
                    if key in read_results and read_results[key] != v:
                        ctx.violation(f"{label}/{how}: read {op[:2]} changed its answer after rejected mutations: {str(v)[:80]}", f"ro-read-changed:{op[0]}", dict(rep, at=k))
                    read_results.setdefault(key, v)
                # "serves every read": what exists in the image can be listed, asked about, opened for reading and read (C10-m6: empty files)
                if ires[0] == "err" and ((op[0] in ("listdir", "getinfo", "getsize") and (op[1] in want_tree or op[1] == "/")) or
                                         (op[0] == "open" and op[3] == "r" and op[2] in want_tree and want_tree[op[2]][0] == "f") or
                                         (op[0] == "read" and not op[1].startswith("m"))):
                    ctx.violation(f"{label}/{how}: the read-only mount refuses the read {op[:4]}: {ires[1]}", f"ro-read-refused:{op[0]}", dict(rep, at=k))
                if op[0] in ("listdir", "getinfo", "exists", "getsize", "read") and str(ires[1]).startswith("INTERNAL"):
                    ctx.violation(f"{label}/{how}: read {op[:2]} raised {ires[1]}", f"ro-read-internal:{op[0]}", dict(rep, at=k))
            r = tie.run_program(img, ops, mount=dict(read_only=True), model=m, on_step=on_step)
            ctx.traces += 1
            ir = r["impl"]
            if r["steps"][0]["impl"][0] != "ok":
                ctx.violation(f"{label}/{how}: read-only mount failed: {r['steps'][0]['impl']}", "ro-mount-failed", rep)
                continue
            if how != "clean" and not (how == "fat" and meta.get("ft") == 12) and not ir.dirty_warned():
                ctx.violation(f"{label}/{how}: no unclean-unmount warning on a marked volume", "ro-no-warning", rep)
            if ir.dev.write_calls:
                ctx.violation(f"{label}/{how}: {ir.dev.write_calls} write call(s) reached the read-only device", "ro-device-write", rep)
            if ir.dev.volume() != img:
                ctx.violation(f"{label}/{how}: device bytes changed under a read-only mount", "ro-bytes-changed", rep)
            if r["disagreement"]:
                ctx.tie_break(f"{label}/{how}: model and implementation disagree at {r['disagreement'].get('at')}", dict(disagreement=r["disagreement"], case=rep))
            if rejected[0] >= 4:
                ctx.nontrivial.add((label, how, i))
            ctx.sample(dict(volume=label, dirty=how, ops=[o[:3] for o in ops[:12]]))
        # read_only=True through a file name
        for label, thunk in vols[:2]:
            base, meta = populated(label, thunk, random.Random(7))
            path = os.path.join(core.SCRATCH, f"ro.{os.getpid()}.img")
            with open(path, "wb") as f:
                f.write(base)
            try:
                with warnings.catch_warnings():
                    warnings.simplefilter("ignore")
                    f = PyFatFS(path, read_only=True)
                    try:
                        f.makedir("/zzz")
                        ctx.violation(f"{label}: makedir succeeded with read_only=True", "ro-mutation-accepted:makedir", dict(volume=meta, via="read_only=True"))
                    except Exception as e:  # noqa
                        if core.classify_exc(e).startswith("INTERNAL"):
                            ctx.violation(f"{label}: makedir on read_only=True raised {type(e).__name__}", "ro-internal:makedir", dict(volume=meta))
                    f.listdir("/")
                    f.close()
                ctx.evaluations += 1
                if open(path, "rb").read() != base:
                    ctx.violation(f"{label}: image file changed under read_only=True", "ro-bytes-changed", dict(volume=meta, via="read_only=True"))
            finally:
                os.remove(path)
        # read-only mounts of a REAL FILE (a device with a file descriptor), the volume at offset 0 and at the classic 63 sectors, requested both ways
        # (read_only=True by name; a file object opened 'rb'): every file reads back byte for byte (C10-m10: positional reads through the
        # descriptor for read-only mounts bypassed the seek that adds the offset — BytesIO devices never took that path)
        for label, thunk in [v for v in vols if v[0] in ("mkfs12-64k", "mkfs16-8500", "build32-tiny")]:
            base, meta = populated(label, thunk, random.Random(11))
            want_tree, _ = history.remount_walk(base, 0, "ibm437", True, read_only=False)
            for off in (0, 63 * 512):
                path = os.path.join(core.SCRATCH, f"rofd.{os.getpid()}.img")
                whole = b"\xEE" * off + base + b"\xEE" * 4096
                with open(path, "wb") as f:
                    f.write(whole)
                try:
                    for via in ("read_only=True", "file object opened rb"):
                        ctx.evaluations += 1
                        fobj = None
                        with warnings.catch_warnings():
                            warnings.simplefilter("ignore")
                            try:
                                if via == "read_only=True":
                                    f = PyFatFS(path, offset=off, read_only=True, encoding="ibm437")
                                else:
                                    from pyfatfs.PyFatFS import PyFatBytesIOFS
                                    fobj = open(path, "rb")
                                    f = PyFatBytesIOFS(fobj, offset=off, encoding="ibm437")
                            except Exception as e:  # noqa
                                ctx.violation(f"{label}@{off} ({via}): a read-only mount of an image file fails: {type(e).__name__}: {e}", "ro-file-mount-failed",
                                              dict(volume=meta, via=via, offset=off))
                                continue
                            bad = None
                            for p2, t in sorted(want_tree.items()):
                                try:
                                    if t[0] == "f":
                                        got = bytes(f.readbytes(p2))
                                        if got != t[2]:
                                            d = next((j for j in range(min(len(got), len(t[2]))) if got[j] != t[2][j]), min(len(got), len(t[2])))
                                            bad = f"{p2!r} reads back differently (length {len(got)} / {len(t[2])}, first difference at byte {d})"
                                    elif not f.isdir(p2):
                                        bad = f"directory {p2!r} is not there"
                                except Exception as e:  # noqa
                                    bad = f"{p2!r}: {type(e).__name__}: {e}"
                                if bad:
                                    break
                            try:
                                f.close()
                            except Exception:  # noqa
                                pass
                            if fobj is not None:
                                fobj.close()
                        if bad:
                            ctx.violation(f"{label}@{off} ({via}): read-only mount of an image file: {bad}", "ro-file-read:" + ("offset" if off else "0"),
                                          dict(volume=meta, via=via, offset=off, what=bad))
                        elif off:
                            ctx.nontrivial.add((label, "ro-file", via))
                        if open(path, "rb").read() != whole:
                            ctx.violation(f"{label}@{off} ({via}): the image file changed under a read-only mount", "ro-bytes-changed", dict(volume=meta, via=via, offset=off))
                finally:
                    os.remove(path)
        # opener parameter conversion
        conv = PyFatFSOpener._PyFatFSOpener__convert_bool
        for s, want in [("true", True), ("1", True), ("t", True), ("y", True), ("TRUE", True), ("false", False), ("0", False), ("f", False), ("n", False), ("False", False)]:
            ctx.evaluations += 1
            if conv(s) is not want:
                ctx.violation(f"opener converts {s!r} to {conv(s)!r}", "opener-bool", dict(value=s))
        for s in ("yes", "no", "2", "", "maybe"):
            try:
                conv(s)
                ctx.violation(f"opener accepts {s!r}", "opener-bool-accepts", dict(value=s))
            except ValueError:
                pass
        pp = PyFatFSOpener._PyFatFSOpener__param_parse
        with warnings.catch_warnings():
            warnings.simplefilter("ignore")
            for params, want in [({"read_only": "true"}, {"read_only": True}), ({"comment": "x", "read_only": "true"}, {"read_only": True}),
                                 ({"read_only": "1", "zzz": "q", "offset": "512"}, {"read_only": True, "offset": 512}),
                                 ({"a": "b", "lazy_load": "false", "read_only": "y"}, {"lazy_load": False, "read_only": True})]:
                ctx.evaluations += 1
                got = pp(dict(params))
                if got != want:
                    ctx.violation(f"opener parameters {params} parsed as {got}", "opener-params", dict(params=params))
    finally:
        m.close()


def extra_search(ctx):
    run(ctx)
