"""C05 — history-level check (see DESIGN.md §5)."""
from . import _hist

LEVEL_NOTE = "history-level: theorems about the executable model; model tied to /repo by byte-exact write logs; direct oracle on the real images"
TRUSTED = ["Coq 8.16.1 kernel", "tools/translate.py", "extraction (ExtrOcamlBasic only) + ocaml/driver.ml", "harness/fatspec.py (independent reader / fsck)",
           "the implementation's in-memory directory cache is abstracted in the model (directories re-read from the device)"]
RULE = ("generated op programs (makedir/create/open/write/truncate/remove/removedir/removetree/setinfo/listdir/...) over a name pool mixing 8.3, long, "
        "Unicode and alias-colliding names on mkfs and independently built volumes; non-trivial = program with >= 5 distinct op kinds; "
        "distinct = (volume, op-kind sequence)")
ORACLES = tuple("fsck,internal".split(","))


def run(ctx):
    # (a volume at a non-zero offset of its device among the mounts: the boot sector and its FAT32 backup are those of the VOLUME — C05-m8 copied
    # the backup from sector 0 of the device)
    _hist.run_histories(ctx, ORACLES, nprog=ctx.scale(24, 400), nops=ctx.scale(30, 80), remount_every=False,
                        mounts=[dict(encoding="ibm437", lazy_load=True), dict(encoding="cp850", lazy_load=False), dict(encoding="ibm437", lazy_load=True, offset=4096)])


def extra_search(ctx):
    _hist.run_histories(ctx, ORACLES, nprog=ctx.scale(48, 400), nops=ctx.scale(40, 100), remount_every=False)
