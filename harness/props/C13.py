"""C13 — corrupt or hostile images cannot hang or crash the library."""
import random
import signal
import struct
import sys
import warnings

import fs.errors
from .. import core, fatspec, gen, history
from ..core import TraceDevice, Model, ImplRun, ScriptedClock, clock_tuple
from pyfatfs.PyFatFS import PyFatBytesIOFS
from pyfatfs._exceptions import PyFATException

LEVEL_NOTE = ("theorems: the model's chain follower and directory scanner are total, return an error (never loop) on cyclic / out-of-range chains and "
              "take at most len(FAT) steps; work bound of listing = clusters x slots; the implementation is run under a work counter")
TRUSTED = ["Coq 8.16.1 kernel (termination of every model function is checked by the guard condition)", "tools/translate.py", "extraction + driver",
           "work counter = Python function-call events + device reads (sys.setprofile); wall-clock alarm as a backstop"]
RULE = ("structure-aware mutations of populated valid images: cyclic / cross-linked / out-of-range / free / bad cluster chains, directory self- and parent-"
        "loops, oversized size fields, damaged boot-sector fields, broken long-name sequences (duplicate ordinals, non-zero cluster, lone surrogates), "
        "truncated devices, random byte flips, raw random images; mount (lazy) + listings, lookups, bounded reads; outcome must be a value or a "
        "pyfatfs / PyFilesystem2 error within the work bound.  non-trivial = mutated image on which at least one call returned an error; distinct = "
        "(mutation kind, position)")

ACCEPTABLE = (PyFATException, fs.errors.FSError)


class Budget(Exception):
    pass


class Watch:
    def __init__(self, limit):
        self.limit, self.n = limit, 0

    def __call__(self, frame, event, arg):
        if event == "call":
            self.n += 1
            if self.n > self.limit:
                sys.setprofile(None)
                raise Budget(f"more than {self.limit} calls")


def alarm_handler(signum, frame):
    raise Budget("wall-clock backstop (10 s)")


def exercise(img, limit):
    """returns list of (call, outcome) ; outcome 'ok' | 'err:<cls>' | 'INTERNAL:<type>: msg' | 'BUDGET'"""
    out = []
    dev = TraceDevice(img, writable=False, record_reads=False, post_guard=0)     # the device ENDS where the image ends (truncated images read short)
    w = Watch(limit)
    signal.signal(signal.SIGALRM, alarm_handler)

    def call(name, fn):
        w.n = 0
        signal.alarm(10)
        sys.setprofile(w)
        try:
            r = fn()
            res = "ok"
        except Budget as e:
            r, res = None, f"BUDGET: {e}"
        except ACCEPTABLE as e:
            r, res = None, "err:" + type(e).__name__
        except RecursionError as e:
            r, res = None, "INTERNAL:RecursionError"
        except Exception as e:  # noqa
            r, res = None, f"INTERNAL:{type(e).__name__}: {str(e)[:80]}"
        finally:
            sys.setprofile(None)
            signal.alarm(0)
        out.append((name, res, w.n))
        return r
    with warnings.catch_warnings():
        warnings.simplefilter("ignore")
        f = call("mount", lambda: PyFatBytesIOFS(dev))
        if f is None:
            return out
        seen = 0
        stack = ["/"]
        while stack and seen < 60:
            d = stack.pop()
            names = call(f"listdir {d[:30]}", lambda: list(f.listdir(d)))
            if not names:
                continue
            if len(names) > 20000:
                out.append((f"listdir {d[:30]}", f"BUDGET: {len(names)} entries returned", 0))
                names = names[:50]
            for n in names[:12]:
                seen += 1
                p = d.rstrip("/") + "/" + n
                isd = call(f"isdir {p[:30]}", lambda: f.isdir(p))
                call(f"getinfo {p[:30]}", lambda: f.getinfo(p, namespaces=["details"]).raw)
                if isd and p.count("/") < 8:
                    stack.append(p)
                elif isd is False:
                    def rd():
                        with f.openbin(p, "r") as h:
                            h.seek(0, 2)
                            h.seek(0)
                            return len(h.read(70000))
                    call(f"read {p[:30]}", rd)
        call("exists", lambda: f.exists("/no/such/path"))
        call("close", f.close)
    return out


def base_image(rng, ft, big=False):
    kw = {12: dict(clusters=120, rootent=32), 16: dict(clusters=4090, rootent=32), 32: dict(clusters=150)}[ft]
    if big:
        # 32 KiB clusters: the address of "cluster 0 / 1" lies before the start of the volume (D32)
        kw = dict(clusters=40, spc=64, rootent=32)
    img, info = fatspec.build(ft, **kw)
    ir = ImplRun(img)
    with ScriptedClock():
        ir.mount()
        # contents depend on the position (a read that lands in the wrong cluster must show: C18-m6)
        def pat(n, k):
            return bytes((i * 7 + i // 251 + k) % 251 + 1 for i in range(n)).hex()
        for op in [["makedir", "/dir one"], ["makedir", "/dir one/inner"], ["writebytes", "/dir one/inner/deep file.bin", pat(1700, 3)],
                   ["writebytes", "/A.TXT", pat(600, 40)], ["writebytes", "/a long name for the root.txt", pat(5000, 90)],
                   ["makedir", "/E"], ["writebytes", "/E/x.bin", "00" * 513]] + [["create", f"/dir one/f{i:02d} with long name.txt"] for i in range(20)]:
            ir.op(op)
        ir.op(["closefs"])
    return ir.dev.volume(), dict(source="build", ft=ft, **kw)


def setfat(b, v, c, val):
    for k in range(v.nfats):
        base = (v.rsvd + k * v.fatsz) * v.bps
        if v.ft == 12:
            o = base + c + c // 2
            w = b[o] | (b[o + 1] << 8)
            w = (w & 0x000F) | ((val & 0xFFF) << 4) if c & 1 else (w & 0xF000) | (val & 0xFFF)
            b[o], b[o + 1] = w & 0xFF, w >> 8
        elif v.ft == 16:
            struct.pack_into("<H", b, base + 2 * c, val & 0xFFFF)
        else:
            struct.pack_into("<L", b, base + 4 * c, val & 0xFFFFFFFF)


def mutations(rng, img, meta):
    v = fatspec.Volume(img, force_ft=history.force_ft(meta))
    used = [c for c in range(2, v.maxc + 1) if v.fat_entry(c) != 0]
    cap = v.fat_capacity()
    out = []

    def mut(kind, fn):
        b = bytearray(img)
        fn(b)
        out.append((kind, bytes(b)))
    for c in rng.sample(used, min(6, len(used))):
        mut(f"fat-self-loop@{c}", lambda b, c=c: setfat(b, v, c, c))
        mut(f"fat-back-loop@{c}", lambda b, c=c: setfat(b, v, c, used[0]))
        mut(f"fat-free@{c}", lambda b, c=c: setfat(b, v, c, 0))
        mut(f"fat-bad@{c}", lambda b, c=c: setfat(b, v, c, v.bad))
        for val, nm in ((v.maxc + 1, "maxc+1"), (cap - 1, "cap-1"), (cap, "cap"), (cap + 7, "cap+7"), (1, "one"), (0xFF6 if v.ft == 12 else 0xFFF6 if v.ft == 16 else 0x0FFFFFF6, "reserved")):
            mut(f"fat-{nm}@{c}", lambda b, c=c, val=val: setfat(b, v, c, val))
        mut(f"fat-crosslink@{c}", lambda b, c=c: setfat(b, v, c, rng.choice(used)))
    # directory entries: find short entries in the root and first subdirectory
    roots = [(v.rsvd + v.nfats * v.fatsz) * v.bps] if v.ft != 32 else [v.caddr(v.rootclus)]
    sub = [e for e in v.read_dir(v.root_loc()) if e["attr"] & 0x10]
    if sub:
        roots.append(v.caddr(sub[0]["cluster"]))
    for base in roots:
        for slot in range(0, 24):
            o = base + slot * 32
            if img[o] in (0, 0xE5):
                continue
            if (img[o + 11] & 0x3F) == 0x0F:
                mut(f"lfn-clus@{o}", lambda b, o=o: b.__setitem__(slice(o + 26, o + 28), b"\x05\x00"))
                mut(f"lfn-dup-ord@{o}", lambda b, o=o: b.__setitem__(o, b[o + 32] if (b[o + 43] & 0x3F) == 0x0F else b[o]))
                mut(f"lfn-surrogate@{o}", lambda b, o=o: b.__setitem__(slice(o + 1, o + 5), b"\x00\xd8\x41\x00"))
                mut(f"lfn-ord0@{o}", lambda b, o=o: b.__setitem__(o, 0x40))
                mut(f"lfn-ffff@{o}", lambda b, o=o: b.__setitem__(slice(o + 1, o + 11), b"\xff" * 10))
            else:
                mut(f"dir-size-huge@{o}", lambda b, o=o: b.__setitem__(slice(o + 28, o + 32), b"\xff\xff\xff\xff"))
                mut(f"dir-clus0@{o}", lambda b, o=o: b.__setitem__(slice(o + 26, o + 28), b"\0\0"))
                mut(f"dir-clus-self@{o}", lambda b, o=o: b.__setitem__(slice(o + 26, o + 28), struct.pack("<H", (sub[0]["cluster"] if sub else 2) & 0xFFFF)))
                mut(f"dir-clus-big@{o}", lambda b, o=o: b.__setitem__(slice(o + 26, o + 28), b"\xf0\xff"))
                mut(f"dir-attr-dir@{o}", lambda b, o=o: b.__setitem__(o + 11, b[o + 11] ^ 0x10))
                # the FIRST name byte alone: a blank (the specification forbids it, damaged images have it; C13-m10 turned it into a third "free"
                # mark that the directory scanner does not know), the 0x05 stand-in, a dot, a control character
                for nb in (0x20, 0x05, 0x2E, 0x01):
                    mut(f"dir-name0={nb:#04x}@{o}", lambda b, o=o, nb=nb: b.__setitem__(o, nb))
                mut(f"dir-name-bytes@{o}", lambda b, o=o: b.__setitem__(slice(o, o + 11), bytes(rng.randrange(1, 256) for _ in range(11))))
    for off, fmt, vals, nm in ((11, "<H", (0, 3, 256, 8192, 65535), "bps"), (13, "<B", (0, 3, 255), "spc"), (14, "<H", (0, 65535), "rsvd"), (16, "<B", (0, 255), "nfats"),
                               (17, "<H", (1, 17, 65535), "rootent"), (19, "<H", (1, 65535), "tot16"), (21, "<B", (0, 0xF7), "media"), (22, "<H", (0, 1, 65535), "fatsz16"),
                               (32, "<L", (0, 1, 0xFFFFFFFF), "tot32"), (36, "<L", (0, 1, 0xFFFFFFF), "fatsz32"), (44, "<L", (0, 1, 0xFFFFFFF), "rootclus"),
                               (510, "<H", (0, 0x55AA), "sig"), (0, "<B", (0, 0x90), "jmp")):
        for val in vals:
            mut(f"bpb-{nm}={val}", lambda b, off=off, fmt=fmt, val=val: struct.pack_into(fmt, b, off, val))
    for cut in (0, 10, 35, 36, 61, 62, 89, 90, 511, 512, 513, v.rsvd * v.bps + 3, (v.rsvd + v.fatsz) * v.bps - 1, v.fds * v.bps - 40, v.fds * v.bps + 100, len(img) - 513):
        if 0 <= cut < len(img):
            out.append((f"truncate@{cut}", img[:cut]))
    # the device ends INSIDE a directory block that is in use: after one slot, in the middle of a slot, after a few slots, at a sector boundary
    for base in roots:
        for d in (32, 47, 64, 101, 256, 512, 544):
            if base + d < len(img):
                out.append((f"truncate-in-dir@{base}+{d}", img[:base + d]))
    for _ in range(12):
        b = bytearray(img)
        region = rng.choice([(0, 512), (v.rsvd * v.bps, (v.rsvd + v.fatsz) * v.bps), (roots[0], roots[0] + 1024), (0, len(img))])
        for _ in range(rng.choice([1, 4, 32])):
            b[rng.randrange(region[0], min(region[1], len(b)))] = rng.randrange(256)
        out.append((f"flip@{region[0]}", bytes(b)))
    return out


def run(ctx):
    rng = ctx.rng
    n = 0
    for ft, big in ((12, False), (16, False), (32, False), (12, True)):
        img, meta = base_image(rng, ft, big)
        muts = mutations(rng, img, meta)
        rng.shuffle(muts)
        if ctx.tier == "quick":
            lead = [m for m in muts if m[0].startswith("dir-name0")]
            forced = [m for m in muts if m[0].startswith("truncate-in-dir")] + lead[:12]      # few and cheap: every quick run has them
            muts = forced + [m for m in muts if not m[0].startswith("truncate-in-dir") and m not in lead[:12]][:130] if not big else [m for m in muts if m[0].startswith(("dir-clus", "fat-one", "lfn-clus"))][:40]
        limit = 400000 + 4 * len(img)       # calls: proportional to the image size (theorem: reads <= clusters x slots per listing)
        for kind, b in muts:
            if ctx.time_left() < 10:
                break
            ctx.evaluations += 1
            res = exercise(b, limit)
            ctx.dist["mut:" + kind.split("@")[0].split("=")[0]] += 1
            if any(r[1].startswith("err") for r in res):
                ctx.nontrivial.add((ft, kind))
            for name, outcome, calls in res:
                if outcome.startswith("INTERNAL") or outcome.startswith("BUDGET"):
                    what = outcome.split(":")[1].strip() if outcome.startswith("INTERNAL") else "budget"
                    ctx.violation(f"FAT{ft} image with mutation {kind}: {name} -> {outcome}", f"hostile:{what}:{kind.split('@')[0].split('=')[0]}:{name.split(' ')[0]}",
                                  dict(base=meta, mutation=kind, call=name, outcome=outcome, image_md5=core.hashlib.md5(b).hexdigest(), seed=ctx.seed))
                    break
            n += 1
        ctx.sample(dict(ft=ft, mutations=[k for k, _ in muts[:8]]))
    for i in range(ctx.scale(30, 600)):
        size = rng.choice([0, 1, 100, 512, 4096, 70000])
        b = bytes(rng.randrange(256) for _ in range(size))
        if size >= 512 and i % 2:
            b = b"\xeb\x3c\x90" + b[3:510] + b"\x55\xaa" + b[512:]
        ctx.evaluations += 1
        for name, outcome, calls in exercise(b, 400000):
            if outcome.startswith("INTERNAL") or outcome.startswith("BUDGET"):
                ctx.violation(f"random {size}-byte image: {name} -> {outcome}", f"hostile:{outcome.split(':')[1].strip() if ':' in outcome else 'budget'}:random:{name.split(' ')[0]}",
                              dict(random_image_hex=b[:600].hex(), size=size, call=name, outcome=outcome))
                break


def extra_search(ctx):
    run(ctx)
