"""Shared driver for the history-level properties: volumes x generated programs x oracles."""
import random

from .. import gen, history, core
from ..core import Model


def quarantined_name(n, enc="ibm437"):
    """known finding D18: a short name whose first OEM byte is 0xE5"""
    try:
        b = n.upper().encode(enc, errors="replace")
    except Exception:
        return False
    return len(b) > 0 and b[0] == 0xE5


def programs(ctx, rng, kind, nops, pool):
    if kind == "namespace":
        return gen.namespace_program(rng, nops=nops, pool=pool)
    if kind == "namespace_nohandles":
        return gen.namespace_program(rng, nops=nops, pool=pool, handle_ops=False)
    raise ValueError(kind)


def run_histories(ctx, oracles, nprog, nops, kind="namespace", vol_filter=None, mounts=None, remount_every=False,
                  extra_cases=(), add_close=True, use_model=True, uni=True):
    vols = gen.volumes(ctx.tier)
    if vol_filter:
        vols = [v for v in vols if vol_filter(v[0])]
    mounts = mounts or [dict(encoding="ibm437", lazy_load=True), dict(encoding="cp850", lazy_load=False)]
    m = Model() if use_model else None
    built = {}
    try:
        for i in range(nprog):
            if ctx.time_left() < 0:
                ctx.notes.append(f"time budget reached after {i} programs")
                break
            label, thunk = vols[i % len(vols)]
            if label not in built:
                built[label] = thunk()
            img, meta = built[label]
            rng = random.Random(ctx.rng.randrange(1 << 62))
            mnt = dict(mounts[(i // len(vols)) % len(mounts)])
            pool = [n for n in gen.name_pool(rng, uni=uni) if not quarantined_name(n, mnt.get("encoding", "ibm437"))]
            ops = programs(ctx, rng, kind, nops, pool)
            if add_close:
                ops = ops + [["closefs"]]
            case = history.Case(label, img, ops, mount=mnt, meta=meta)
            r = history.run_case(ctx, case, oracles=oracles, model=m, use_model=use_model, remount_every=remount_every)
            sig = tuple(s["op"][0] for s in r["steps"])[:60]
            nerr = sum(1 for s in r["steps"] if s["impl"][0] == "err")
            if len(set(sig)) >= 5:
                ctx.nontrivial.add((label, hash(sig)))
            ctx.dist["vol:" + label] += 1
            ctx.sample(dict(volume=label, mount=mnt, ops=[o[:3] if o[0] != "write" else [o[0], o[1], f"<{len(o[2]) // 2} bytes>"] for o in ops[:12]],
                            n_ops=len(ops), errors=nerr))
        for case in extra_cases:
            history.run_case(ctx, case, oracles=oracles, model=m, use_model=use_model, remount_every=remount_every)
    finally:
        if m:
            m.close()
