"""Shared driver for the history-level properties: volumes x generated programs x oracles."""
import random

from .. import gen, history, core
from ..core import Model


def quarantined_name(n, enc="ibm437"):
    """known finding D18: a short name whose first OEM byte is 0xE5"""
    try:
        b = n.upper().encode(enc, errors="replace")
    except Exception:
        return False
    return len(b) > 0 and b[0] == 0xE5


def programs(ctx, rng, kind, nops, pool):
    if kind == "namespace":
        return gen.namespace_program(rng, nops=nops, pool=pool)
    if kind == "namespace_nohandles":
        return gen.namespace_program(rng, nops=nops, pool=pool, handle_ops=False)
    raise ValueError(kind)


def t_of(label):
    return next((t for t in ("12", "16", "32") if t in label[:8]), "12")


def scripted_programs(bpc):
    """targeted histories (minimised past disagreements and boundary shapes), run before the random programs"""
    f83 = [f"/D/F{i:02d}.TXT" for i in range(15)]
    return [
        # a directory that shrinks to an exact multiple of 16 slots (no room for an end mark in the last sector), then across a cluster boundary
        [["makedir", "/D"]] + [["create", p] for p in f83] + [["remove", f83[-1]], ["listdir", "/D"]] +
        [["create", f"/D/second cluster long name {i:02d}.txt"] for i in range(30)] + [["remove", f"/D/second cluster long name {i:02d}.txt"] for i in range(3, 30)] + [["listdir", "/D"]],
        # a file whose size is an exact multiple of the cluster size, appended by less than a cluster; then an unrelated operation
        [["makedir", "/A"], ["makedir", "/A/B"], ["open", "h", "/A/B/V.BIN", "w"], ["write", "h", "41" * (2 * bpc)], ["hclose", "h"],
         ["open", "g", "/A/B/V.BIN", "a"], ["write", "g", "42" * 10], ["hclose", "g"], ["makedir", "/NEW"], ["getsize", "/A/B/V.BIN"]],
        # re-open a non-empty file and grow it over a cluster boundary through r+, truncate and w
        [["open", "h", "/G.BIN", "w"], ["write", "h", "47" * 100], ["hclose", "h"], ["open", "i", "/G.BIN", "r+"], ["seek", "i", 0, 2],
         ["write", "i", "48" * (bpc + 50)], ["hclose", "i"], ["open", "j", "/G.BIN", "r+"], ["truncate", "j", 3 * bpc + 1], ["hclose", "j"],
         ["open", "k", "/G.BIN", "w"], ["write", "k", "49" * (2 * bpc + 3)], ["hclose", "k"], ["open", "l", "/G.BIN", "w"], ["hclose", "l"], ["remove", "/G.BIN"]],
        # fragmented free space: B between A and C is removed, A is extended by more than the hole
        [["open", "a", "/A.BIN", "w"], ["write", "a", "61" * bpc], ["hclose", "a"], ["open", "b", "/B.BIN", "w"], ["write", "b", "62" * bpc], ["hclose", "b"],
         ["open", "c", "/C.BIN", "w"], ["write", "c", "63" * bpc], ["hclose", "c"], ["remove", "/B.BIN"], ["open", "a2", "/A.BIN", "a"],
         ["write", "a2", "64" * (2 * bpc)], ["hclose", "a2"], ["open", "r", "/C.BIN", "r"], ["read", "r", -1], ["hclose", "r"], ["open", "r2", "/A.BIN", "r"], ["read", "r2", -1], ["hclose", "r2"]],
        # position at EOF on a cluster boundary; grow, then truncate back to the position; write (D31)
        [["open", "t", "/T.BIN", "w"], ["write", "t", "54" * bpc], ["seek", "t", 0, 2], ["truncate", "t", 2 * bpc + 1], ["truncate", "t", bpc],
         ["write", "t", "55" * 20], ["hclose", "t"], ["getsize", "/T.BIN"], ["open", "u", "/T.BIN", "r"], ["read", "u", -1], ["hclose", "u"]],
        # names whose plain 8.3 alias is already the alias (or the name) of another entry of the directory: the later one needs a numbered alias
        [["makedir", "/cs"], ["create", "/cs/Readme.txt"], ["create", "/cs/readme.txt"], ["makedir", "/cs/Pictures2023"], ["makedir", "/cs/pictures"],
         ["create", "/cs/documentation.txt"], ["create", "/cs/document.txt"], ["create", "/cs/DATA.BIN"], ["create", "/cs/data.bin.old"], ["create", "/cs/Data.Bin"],
         ["listdir", "/cs"], ["remove", "/cs/readme.txt"], ["exists", "/cs/Readme.txt"], ["removedir", "/cs/pictures"], ["isdir", "/cs/Pictures2023"], ["listdir", "/cs"]],
        # operations that change nothing but time stamps: re-creating (wiping) a file that is already empty, in the root and below; opening for
        # append and closing without a write; then an unrelated operation (C03-m5: the new times existed in memory only)
        [["create", "/EMPTY.TXT"], ["makedir", "/t"], ["create", "/t/empty too.txt"], ["create", "/EMPTY.TXT", 1], ["getinfo", "/EMPTY.TXT"],
         ["create", "/t/empty too.txt", 1], ["getinfo", "/t/empty too.txt"], ["open", "a", "/EMPTY.TXT", "a"], ["hclose", "a"], ["makedir", "/u"],
         ["create", "/EMPTY.TXT", 1], ["listdir", "/"]],
        # re-creating (wiping) a file that OWNS clusters, below the root and in it; writing it again, wiping it again (C04-m6: the chain stayed
        # marked in use with no entry pointing at it)
        [["makedir", "/w"], ["open", "a", "/w/FULL.BIN", "w"], ["write", "a", "57" * (2 * bpc + 5)], ["hclose", "a"], ["create", "/w/FULL.BIN", 1],
         ["getsize", "/w/FULL.BIN"], ["open", "b", "/w/FULL.BIN", "r+"], ["write", "b", "58" * (bpc + 1)], ["hclose", "b"], ["create", "/w/FULL.BIN", 1],
         ["open", "c", "/ROOTFULL.BIN", "w"], ["write", "c", "59" * bpc], ["hclose", "c"], ["create", "/ROOTFULL.BIN", 1], ["create", "/ROOTFULL.BIN", 0],
         ["open", "d", "/w/other long name.bin", "w"], ["write", "d", "5a" * (3 * bpc)], ["hclose", "d"], ["listdir", "/w"]],
        # removetree of the ROOT while it holds nothing but files (nothing after it rewrites the root), as the last operation (C03-m6: the
        # per-file rewrite was left to the final removedir, which the root does not have)
        [["create", "/R1.TXT"], ["open", "a", "/R2 long name.bin", "w"], ["write", "a", "52" * (bpc + 1)], ["hclose", "a"], ["create", "/R3.TXT"],
         ["removetree", "/"], ["listdir", "/"]],
        # ... and with sub-directories, followed by new entries
        [["makedir", "/x"], ["create", "/x/in x.txt"], ["open", "a", "/TOP.BIN", "w"], ["write", "a", "54" * (2 * bpc)], ["hclose", "a"], ["makedir", "/x/y"],
         ["removetree", "/"], ["listdir", "/"], ["create", "/after the flood.txt"], ["listdir", "/"]],        # calls that change ONE time stamp only, the access date alone among them (it has no time field), as the last thing that happens to
        # their directories (C03-m8: "nothing changed" decided by the fields that have a time)
        [["create", "/acc.txt"], ["makedir", "/ts"], ["create", "/ts/only accessed.txt"], ["create", "/ts/only created.txt"],
         ["setinfo", "/ts/only accessed.txt", None, None, 1709251200, None, None, (2024, 3, 1, 0, 0, 0)],
         ["setinfo", "/ts/only created.txt", 1709251200, None, None, (2024, 3, 1, 0, 0, 0), None, None],
         ["setinfo", "/acc.txt", None, None, 1717200000, None, None, (2024, 6, 1, 0, 0, 0)], ["getinfo", "/acc.txt"], ["getinfo", "/ts/only accessed.txt"]],
        # long-name sets that lie ACROSS the cluster boundaries of a directory of several clusters when the volume is closed (4 slots each behind
        # '.' and '..': slots 14..17, 30..33, ...), read again by the second session (C06-m7: the reader's long-name accumulator was not carried
        # from one cluster of a directory to the next)
        [["makedir", "/q"]] + [["create", f"/q/quarterly report number {i:02d} (final).txt"] for i in range(36)] + [["listdir", "/q"]],
        # a chained directory grows by two entries into a new cluster and shrinks back so that its slots fill the clusters before EXACTLY (no room
        # for an end mark), as the last thing that happens to it (C06-m8 / C05-m7: the zero fill stopped with the new contents)
        [["makedir", "/SPOOL"]] + [["create", f"/SPOOL/F{i:03d}.DAT"] for i in range(max(1, min(bpc // 32 - 2, 254)))] +
        [["create", "/SPOOL/TMP1.DAT"], ["create", "/SPOOL/TMP2.DAT"], ["remove", "/SPOOL/TMP1.DAT"], ["remove", "/SPOOL/TMP2.DAT"], ["listdir", "/SPOOL"]],
        # a handle parked at a cluster-aligned end of file while the file grows through a SECOND handle, then written through again: whatever the
        # bytes, no cluster may be left in use without an owner (C04-m9: "the cursor behind a full last cluster" taken for "the end of the chain")
        [["makedir", "/two"], ["open", "h1", "/two/SHARED.BIN", "w"], ["write", "h1", "31" * (2 * bpc)], ["open", "h2", "/two/SHARED.BIN", "a"],
         ["write", "h2", "32" * 100], ["hclose", "h2"], ["write", "h1", "33" * 10], ["hclose", "h1"], ["getsize", "/two/SHARED.BIN"], ["listdir", "/two"]],
    ]


def second_session(ctx, case, r, oracles, model, use_model, remount_every):
    """The closed image of a history is mounted again and EVERY directory of its tree is rewritten (one entry added, one removed, one
    file appended to) with the entries as the reader parsed them from the device; then closed and judged like any other history."""
    ir = r["impl"]
    if not r["steps"] or r["steps"][0]["impl"][0] != "ok" or not any(s["op"][0] == "closefs" and s["impl"][0] == "ok" for s in r["steps"]):
        return
    img2 = ir.dev.volume()
    enc = case.mount.get("encoding", "ibm437")
    try:
        w, _ = history.remount_walk(img2, 0, enc, True)
    except Exception:  # noqa  (an image that does not mount is reported by the oracles of the first session)
        return
    # what the next session finds is what the previous one reported before it closed (C06-m7: long names lying across a cluster boundary of a
    # directory were lost when the directory was read again)
    fl = r.get("final_live")
    if fl is not None:
        dd = history.diff_trees(fl[0], w, "the session that wrote it", "the next session")
        if dd:
            ctx.violation(f"{case.label}: the next session sees a different tree than the one reported before closing: {dd[0]}", "second-session-differs",
                          dict(case.replay(), diffs=dd[:8]))
            return
    dirs = ["/"] + sorted(p for p in w if w[p][0] == "d")
    ops = []
    for d in dirs[:8]:
        base = d.rstrip("/")
        files = sorted(p for p in w if w[p][0] == "f" and p.rsplit("/", 1)[0] == base)
        ops.append(["create", base + "/second session.txt"])
        if files:
            ops.append(["remove", files[0]])
        if len(files) > 1:
            ops.append(["open", f"s{len(ops)}", files[1], "a"])
            ops.append(["write", f"s{len(ops) - 1}", "73" * 7])
            ops.append(["hclose", f"s{len(ops) - 2}"])
        ops.append(["listdir", d])
    ops.append(["closefs"])
    mnt = {k: v for k, v in case.mount.items() if k != "offset"}
    c2 = history.Case(case.label + "+s2", img2, ops, mount=mnt, meta=dict(case.meta, first_session=[o[:3] if o[0] != "write" else [o[0], o[1], f"<{len(o[2]) // 2} bytes>"] for o in case.ops]))
    history.run_case(ctx, c2, oracles=oracles, model=model, use_model=use_model, remount_every=remount_every)
    ctx.dist["second-session"] += 1


def fill_cases(ctx):
    """'... including filling the volume until it reports no space': volumes whose data area ends in a PARTIAL cluster (the sectors behind
    the last whole cluster belong to the volume but to no cluster), at non-zero offsets; files of several clusters, then of one byte, until
    every request is refused; one file removed and the space filled again"""
    from .. import fatspec
    out = []
    geoms = [dict(ft=12, clusters=40, spc=4, rootent=32, extra_sectors=3), dict(ft=16, clusters=4090, spc=2, rootent=32, extra_sectors=1),
             dict(ft=32, clusters=70, spc=8, extra_sectors=7), dict(ft=12, clusters=25, spc=2, bps=1024, rootent=16, extra_sectors=1)]
    if ctx.tier == "quick":
        geoms = [geoms[0], geoms[2], geoms[3]]
    for gi, g in enumerate(geoms):
        kw = dict(g)
        ft = kw.pop("ft")
        img, info = fatspec.build(ft, **kw)
        ops = fill_program(info["bpc"], g["clusters"])
        meta = dict(source="build", ft=ft, **kw)
        out.append(history.Case(f"fill{ft}-partial-last-cluster-{gi}", img, ops, mount=dict(encoding="ibm437", offset=(0, 1536, 4096, 512)[gi % 4]), meta=meta))
    # a FAT12 volume whose FAT holds exactly count + 2 entries, an ODD number (one sector: 341 entries, 339 clusters): filled to the LAST cluster, so
    # the last entry of the table is in use when the table is written (C04-m7: a pair-wise packer dropped the unpaired last entry)
    kw = dict(clusters=339, rootent=16)
    img, info = fatspec.build(12, **kw)
    ops = [["makedir", "/f"]]        # (the root region has 16 slots only)
    for i in range(52):
        ops += [["open", f"f{i}", f"/f/S{i:02d}.BIN", "w"], ["write", f"f{i}", "%02x" % (0x30 + i % 64) * (7 * info["bpc"])], ["hclose", f"f{i}"]]
    for i in range(10):
        ops += [["open", f"o{i}", f"/f/ONE{i:02d}.BIN", "w"], ["write", f"o{i}", "6f"], ["hclose", f"o{i}"]]
    ops += [["listdir", "/f"], ["remove", "/f/S03.BIN"], ["open", "z", "/f/AGAIN.BIN", "w"], ["write", "z", "7a" * (7 * info["bpc"])], ["hclose", "z"], ["closefs"]]
    out.append(history.Case("fill12-last-entry", img, ops, mount=dict(encoding="ibm437"), meta=dict(source="build", ft=12, **kw)))
    # FAT12 entries 341, 682, ... lie ACROSS a sector boundary of the table (1.5 bytes each): a first file that ends exactly in cluster 341, a second
    # one that ends in cluster 682, nothing allocated behind them before the volume is closed (C03-m7: a flush that writes only the sectors of the
    # changed entries, computed from the byte where an entry STARTS)
    kw = dict(clusters=700, rootent=16)
    img, info = fatspec.build(12, **kw)
    bpc = info["bpc"]
    # B = [2]; A = [3..341], ending exactly in the straddling entry; C = [342] (its flush writes the second sector); B removed; A appended by one
    # cluster: 341 -> 2, a link whose low bits lie in the first sector and whose high bits lie in the second
    ops = [["open", "b", "/B.BIN", "w"], ["write", "b", "62" * bpc], ["hclose", "b"],
           ["open", "a", "/TO341.BIN", "w"], ["write", "a", "61" * (339 * bpc)], ["hclose", "a"], ["getsize", "/TO341.BIN"],
           ["open", "c", "/C.BIN", "w"], ["write", "c", "63" * bpc], ["hclose", "c"], ["remove", "/B.BIN"],
           ["open", "a2", "/TO341.BIN", "a"], ["write", "a2", "64" * bpc], ["hclose", "a2"],
           ["listdir", "/"], ["closefs"]]         # (nothing is allocated behind them afterwards: a later flush of the second sector would repair it)
    out.append(history.Case("fat12-straddling-entries", img, ops, mount=dict(encoding="ibm437"), meta=dict(source="build", ft=12, **kw)))
    return out


def fill_program(bpc, clusters):
    if True:
        big = clusters > 1000
        g = dict(clusters=clusters)
        ops = [["makedir", "/f"]]
        n = 0
        per = (g["clusters"] // 12 + 1) if not big else g["clusters"] // 6
        for i in range(16 if not big else 8):
            ops += [["open", f"h{n}", f"/f/BIG{i:02d}.BIN", "w"], ["write", f"h{n}", "%02x" % (0x41 + i) * (per * bpc)], ["hclose", f"h{n}"]]
            n += 1
        for i in range(6):
            ops += [["open", f"h{n}", f"/f/ONE{i:02d}.BIN", "w"], ["write", f"h{n}", "7a"], ["hclose", f"h{n}"]]
            n += 1
        ops += [["remove", "/f/BIG01.BIN"], ["open", f"h{n}", "/f/AGAIN.BIN", "w"], ["write", f"h{n}", "62" * ((per + 1) * bpc)], ["hclose", f"h{n}"],
                ["open", f"h{n + 1}", "/f/AGAIN2.BIN", "w"], ["write", f"h{n + 1}", "63" * (per * bpc)], ["hclose", f"h{n + 1}"], ["listdir", "/f"], ["closefs"]]
        return ops


def run_histories(ctx, oracles, nprog, nops, kind="namespace", vol_filter=None, mounts=None, remount_every=False,
                  extra_cases=(), add_close=True, use_model=True, uni=True, scripted=True, high=False, fill=None):
    vols = gen.volumes(ctx.tier, high=high)
    if vol_filter:
        vols = [v for v in vols if vol_filter(v[0])]
    mounts = mounts or [dict(encoding="ibm437", lazy_load=True), dict(encoding="cp850", lazy_load=False)]
    m = Model() if use_model else None
    built = {}
    try:
        if scripted:
            from .. import fatspec
            for vi, (label, thunk) in enumerate(vols):
                if label in ("build32-high", "build32-real", "mkfs32"):
                    continue
                if ctx.time_left() < 20:
                    break
                if label not in built:
                    built[label] = thunk()
                img, meta = built[label]
                bpc = fatspec.Volume(img, force_ft=history.force_ft(meta)).bpc
                progs = scripted_programs(bpc)
                # quick tier: every scripted program runs on every FAT type at least once (the volumes of one type share the programs)
                ftype = next((t for t in ("12", "16", "32") if t in label[:8]), "12")
                same = [l for l, _ in vols if l not in ("build32-high", "build32-real", "mkfs32") and t_of(l) == ftype]
                j = same.index(label)
                for si in ([k for k in range(len(progs)) if k % len(same) == j] if ctx.tier == "quick" else range(len(progs))):
                    mnt = dict(mounts[(vi + si) % len(mounts)])
                    case = history.Case(label, img, progs[si] + ([["closefs"]] if add_close else []), mount=mnt, meta=meta)
                    r = history.run_case(ctx, case, oracles=oracles, model=m, use_model=use_model, remount_every=remount_every)
                    ctx.dist["scripted"] += 1
                    if add_close and (si % 2 == 0 or si >= len(progs) - 3):      # (the last programs are there FOR their second session)
                        second_session(ctx, case, r, oracles, m, use_model, remount_every)
        # (the fixed cases before the random programs: they must not fall victim to the time budget)
        if fill is None:
            fill = scripted and vol_filter is None and any(o in oracles for o in ("fsck", "interop", "io_bounds", "remount"))
        for case in list(extra_cases) + (fill_cases(ctx) if fill else []):
            if ctx.time_left() < 5:
                break
            if case.label.startswith("fill") and "offset" in case.mount and "io_bounds" not in oracles:
                case.mount = {k: v for k, v in case.mount.items() if k != "offset"}
            history.run_case(ctx, case, oracles=oracles, model=m, use_model=use_model, remount_every=False)
            ctx.dist["fill-case" if case.label.startswith("fill") else "extra-case"] += 1
        for i in range(nprog):
            if ctx.time_left() < 0:
                ctx.notes.append(f"time budget reached after {i} programs")
                break
            label, thunk = vols[i % len(vols)]
            if label not in built:
                built[label] = thunk()
            img, meta = built[label]
            rng = random.Random(ctx.rng.randrange(1 << 62))
            mnt = dict(mounts[(i // len(vols)) % len(mounts)])
            pool = [n for n in gen.name_pool(rng, uni=uni) if not quarantined_name(n, mnt.get("encoding", "ibm437"))]
            ops = programs(ctx, rng, kind, nops, pool)
            if add_close:
                ops = ops + [["closefs"]]
            case = history.Case(label, img, ops, mount=mnt, meta=meta)
            r = history.run_case(ctx, case, oracles=oracles, model=m, use_model=use_model, remount_every=remount_every)
            if add_close and i % 2 == 0:
                second_session(ctx, case, r, oracles, m, use_model, remount_every)
            sig = tuple(s["op"][0] for s in r["steps"])[:60]
            nerr = sum(1 for s in r["steps"] if s["impl"][0] == "err")
            if len(set(sig)) >= 5:
                ctx.nontrivial.add((label, hash(sig)))
            ctx.dist["vol:" + label] += 1
            ctx.sample(dict(volume=label, mount=mnt, ops=[o[:3] if o[0] != "write" else [o[0], o[1], f"<{len(o[2]) // 2} bytes>"] for o in ops[:12]],
                            n_ops=len(ops), errors=nerr))
    finally:
        if m:
            m.close()
