"""C07 — any specification-valid volume made elsewhere is read correctly."""
import random
import struct

from .. import core, fatspec, gen, history
from ..fatspec import dirent, lfn_slots, subdir_bytes
from ..core import ImplRun, Model, ScriptedClock, clock_tuple
from . import _hist

LEVEL_NOTE = ("theorems: the generated parse_header geometry assigns the FAT width of the specification's cluster-count rule for every coherent "
              "boot sector (C07_type, by lia, both sides of 4085 and 65525); FAT entry decoding = specification formula (C20); tie: foreign images "
              "mounted by the real code and by the model")
TRUSTED = ["Coq 8.16.1 kernel", "tools/translate.py (type thresholds and geometry arithmetic are generated)", "extraction + driver",
           "harness/fatspec.py independent formatter and its construction-time expected tree"]
RULE = ("foreign images over the geometry lattice (sector size 512..4096, 1..128 sectors per cluster, 1..3 FATs, reserved / root-entry counts, cluster "
        "counts 4084/4085 (and 65524/65525 in the thorough tier), FAT-sector boundaries), fragmented / reversed / maximal chains, directories over "
        "several clusters, deleted slots, labels, orphan and invalid long-name runs, entries behind the end mark, 0x05 lead bytes; fat_type, walk, "
        "sizes and bytes compared with the construction; then a short write history judged by fsck.  non-trivial = image with a multi-cluster "
        "file or directory; distinct = (geometry, placement seed)")


def rich_image(rng, ft, **geom):
    """returns (image, expected tree {path: ('d',)|('f', size, bytes)}, meta)"""
    clusters = geom.get("clusters", 300)
    bps, spc = geom.get("bps", 512), geom.get("spc", 1)
    bpc = bps * spc
    hi = clusters + 1
    pool = list(range(8 if ft == 32 else 2, hi + 1))       # FAT32: clusters 2..7 are left for the root directory chain
    rng.shuffle(pool)

    def take(n, force_max=False):
        cs = [pool.pop() for _ in range(n)]
        if force_max and hi in pool:
            pool.remove(hi)
            cs[-1] = hi
        return cs
    exp = {}
    files = []
    # a fragmented, reversed chain through the maximal cluster number: it is a link value (the second cluster of the chain), which is
    # what the chain follower classifies -- on a volume with the largest cluster count of its type it lies above MAX_DATA_CLUSTER (D36)
    c1 = sorted(take(4), reverse=True)
    if hi in pool:
        pool.remove(hi)
        c1[1] = hi
    elif hi in c1:
        c1.remove(hi)
        c1.insert(1, hi)
    d1 = bytes(rng.randrange(256) for _ in range(4 * bpc - 3))
    files.append(("A Foreign Long Name.data", b"AFOREI~1DAT", 0x20, c1, d1))
    exp["/A Foreign Long Name.data"] = ("f", len(d1), d1)
    c2 = take(1)
    d2 = b"short"
    files.append((None, b"SHORT   TXT", 0x20, c2, d2))
    exp["/SHORT.TXT"] = ("f", 5, d2)
    files.append((None, b"EMPTY      ", 0x20, [], b""))
    exp["/EMPTY"] = ("f", 0, b"")
    # sub-directory over two clusters whose entries straddle the boundary, with a long-name set split across it
    sc = take(2)
    inner_c = take(2)
    inner_d = bytes(rng.randrange(256) for _ in range(bpc + 17))
    ent = b""
    nfill = bpc // 32 - 2 - 2      # fill so that the long-name set of the next file straddles the cluster boundary
    for k in range(nfill):
        ent += dirent(f"FILL{k:04d}   ".encode()[:11], 0x20, 0, 0)
        exp[f"/SUBDIR/FILL{k:04d}"] = ("f", 0, b"")
    ent += lfn_slots("straddling long file name.bin", b"STRADD~1BIN") + dirent(b"STRADD~1BIN", 0x20, inner_c[0], len(inner_d))
    exp["/SUBDIR/straddling long file name.bin"] = ("f", len(inner_d), inner_d)
    ent += dirent(b"\xe5ELETED TXT", 0x20, 0, 0) + dirent(b"LAST    ONE", 0x20, 0, 0)
    exp["/SUBDIR/LAST.ONE"] = ("f", 0, b"")
    exp["/SUBDIR"] = ("d",)
    sub = subdir_bytes(sc[0], 0, ent)
    sub = sub.ljust(2 * bpc, b"\0")
    # garbage behind the end mark (still inside the second cluster)
    endpos = len(subdir_bytes(sc[0], 0, ent))
    if endpos + 64 <= 2 * bpc:
        stale = lfn_slots("ghost of a long name", b"GHOSTO~1   ")[:32]
        sub = sub[:endpos] + b"\0" + stale[1:] + dirent(b"GHOST   TXT", 0x20, 0, 0) + sub[endpos + 64:]
    files.append((None, b"SUBDIR     ", 0x10, sc, sub))
    files.append((None, None, 0, inner_c, inner_d)) if False else None

    roomy = ft == 32 or geom.get("rootent", 64) >= 64

    def root_extra(root):
        r = root
        r += dirent(b"\xe5LDFILE TXT", 0x20, 0, 0)                                          # deleted slot
        r += lfn_slots("orphan without entry", b"NOSUCH  XXX")[:64]                        # orphan long-name run
        r += dirent(b"\xe5ONE       ", 0x20, 0, 0)
        r += lfn_slots("wrong checksum name.txt", b"OTHERNAMTXT") + dirent(b"WRONGC~1TXT", 0x20, 0, 0)   # checksum of another name
        s = lfn_slots("missing ordinal in the middle of it.txt", b"MISSIN~1TXT")
        r += s[:32] + s[64:] + dirent(b"MISSIN~1TXT", 0x20, 0, 0)                          # ordinal 2 of 3 missing
        r += dirent(b"\x05LPHA   TXT", 0x20, 0, 0)                                          # 0x05 lead byte = 0xE5
        if roomy:
            r += dirent(b"SECONDLABEL", 0x28, 0, 0)                                          # a label as Windows writes it: VOLUME_ID | ARCHIVE
        if roomy:                                                                            # 0x05 lead byte below a valid long-name set:
            r += lfn_slots("sigma starts the alias.txt", b"\x05IGMAS~1TXT") + dirent(b"\x05IGMAS~1TXT", 0x20, 0, 0)   # checksum over the STORED bytes
        # the end mark as another implementation leaves it when it removes the LAST, long-named entry: 0x00 over the first byte of the set's first
        # slot — the rest of that slot (attribute byte 0x0F included) and the stale slots behind it are not cleared (C07-m7)
        gone = lfn_slots("removed last long file.txt", b"REMOVE~1TXT")
        r += b"\0" + gone[1:] + dirent(b"REMOVE~1TXT", 0x20, 0, 0) + dirent(b"AFTEREND   ", 0x20, 0, 0)   # behind the end mark
        return r
    exp["/WRONGC~1.TXT"] = ("f", 0, b"")
    exp["/MISSIN~1.TXT"] = ("f", 0, b"")
    exp["/" + b"\xe5LPHA".decode("ibm437") + ".TXT"] = ("f", 0, b"")
    if roomy:
        exp["/sigma starts the alias.txt"] = ("f", 0, b"")
    kw = dict(geom)
    kw.update(files=files, root_extra=root_extra, label="FOREIGN", rootent=geom.get("rootent", 64))
    if ft == 32:
        kw["hi_bits"] = {c: rng.choice([0xF, 0xA, 0x1]) for c in (c1[:2] + sc[:1] + [1])}
    if ft == 32:
        kw.pop("rootent", None)
    img, info = fatspec.build(ft, **kw)
    # place the inner file's clusters by hand (it lives in the sub-directory)
    b = bytearray(img)
    v = fatspec.Volume(bytes(b), force_ft=32 if ft == 32 and clusters < 65525 else None)
    eoc = {12: 0xFFF, 16: 0xFFFF, 32: 0x0FFFFFFF}[ft]

    def setfat(c, val):
        for k in range(v.nfats):
            base = (v.rsvd + k * v.fatsz) * v.bps
            if ft == 12:
                o = base + c + c // 2
                w = b[o] | (b[o + 1] << 8)
                w = (w & 0x000F) | (val << 4) if c & 1 else (w & 0xF000) | val
                b[o], b[o + 1] = w & 0xFF, w >> 8
            elif ft == 16:
                struct.pack_into("<H", b, base + 2 * c, val)
            else:
                struct.pack_into("<L", b, base + 4 * c, val)
    setfat(inner_c[0], inner_c[1])
    setfat(inner_c[1], eoc)
    for i, c in enumerate(inner_c):
        a = v.caddr(c)
        b[a:a + bpc] = inner_d[i * bpc:(i + 1) * bpc].ljust(bpc, b"\0")
    meta = dict(source="build", ft=ft, **{k: val for k, val in geom.items()})
    return bytes(b), exp, meta


GEOMS = [dict(ft=12, clusters=300), dict(ft=12, clusters=4084, rootent=64), dict(ft=16, clusters=4085, rootent=64), dict(ft=12, clusters=200, bps=1024, spc=2, nf=1),
         dict(ft=12, clusters=340, bps=4096, spc=1, nf=3, rootent=128), dict(ft=16, clusters=4200, spc=4, rsvd=5, rootent=112), dict(ft=32, clusters=400, spc=1),
         dict(ft=12, clusters=339, rootent=64), dict(ft=12, clusters=680, rootent=64), dict(ft=12, clusters=1022, rootent=32), dict(ft=12, clusters=60, spc=64),
         dict(ft=16, clusters=4090, nf=1, rsvd=3, rootent=32), dict(ft=12, clusters=4084, rootent=512, spc=2)]
GEOMS_T = [dict(ft=16, clusters=65524, rootent=512), dict(ft=32, clusters=65525), dict(ft=32, clusters=66000, spc=8, bps=512), dict(ft=12, clusters=120, spc=128),
           dict(ft=16, clusters=5000, bps=2048, spc=2, rootent=64)]


def run(ctx):
    geoms = GEOMS + (GEOMS_T if ctx.tier == "thorough" else [])
    m = Model()
    try:
        # short names in a DOUBLE-BYTE OEM code page (no long names): the 8-byte and the 3-byte field are decoded each on its own — a character
        # takes two bytes, so "decode the 11 bytes, then cut at character 8" gives other names (C07-m8)
        for ft in (12, 32):
            names = [(b"\x93\xfa\x96\x7b\x8c\xea  DAT", b"nihongo" * 30), (b"\x93\x8c\x8b\x9e    JPG", b"tokyo" * 200), (b"A       TXT", b"a"),
                     (b"\x83\x65\x83\x58\x83\x67  \x83\x65 ", b"tesuto")]
            files, exp = [], {}
            c = 5
            for n11, data in names:
                files.append((None, n11, 0x20, [c], data))
                base, ext = n11[:8].decode("cp932").rstrip(), n11[8:].decode("cp932").rstrip()
                exp["/" + base + ("." + ext if ext else "")] = ("f", len(data), data)
                c += 2
            img, info = fatspec.build(ft, clusters=120, spc=2, files=files)
            meta = dict(source="build", ft=ft, clusters=120, spc=2, names="double-byte OEM short names (cp932)")
            mnt = dict(encoding="cp932")
            ir = ImplRun(img, **mnt)
            res, _ = ir.mount()
            ctx.evaluations += 1
            ctx.dist["dbcs-short-names"] += 1
            rep = dict(volume=meta, volume_label=f"foreign{ft}-dbcs", mount=mnt)
            if res[0] != "ok":
                ctx.violation(f"foreign{ft}-dbcs: valid foreign volume does not mount ({res[1]})", f"mount-failed:ft{ft}", rep)
                continue
            try:
                w = ir.walk()
                d = history.diff_trees(w, exp, "pyfatfs", "the volume as built")
            except Exception as e:  # noqa
                d = [f"walking the tree raised {type(e).__name__}: {e}"]
            if d:
                ctx.violation(f"foreign{ft}-dbcs (encoding cp932): {d[0]}", "foreign-tree:dbcs", dict(rep, diffs=d[:8]))
            ir.op(["closefs"])
        for i in range(ctx.scale(len(GEOMS) * 2, len(geoms) * 12)):
            if ctx.time_left() < 10:
                break
            g = dict(geoms[i % len(geoms)])
            ft = g.pop("ft")
            rng = random.Random(ctx.rng.randrange(1 << 62))
            try:
                img, exp, meta = rich_image(rng, ft, **g)
            except (ValueError, IndexError) as e:
                ctx.notes.append(f"builder skipped {g}: {e}")
                continue
            label = f"foreign{ft}-c{g.get('clusters')}-bps{g.get('bps', 512)}-spc{g.get('spc', 1)}"
            ctx.evaluations += 1
            ctx.dist[label] += 1
            spec = fatspec.Volume(img, force_ft=history.force_ft(meta))
            for off in ((0, 4096) if i % 3 == 0 else (0,)):
                mnt = dict(encoding="ibm437", lazy_load=bool(i % 2), offset=off)
                rep = dict(volume=meta, volume_label=label, mount=mnt, build_seed=i)
                ir = ImplRun(img, **mnt)
                res, _ = ir.mount()
                if res[0] != "ok":
                    ctx.violation(f"{label}: valid foreign volume does not mount ({res[1]})", f"mount-failed:ft{ft}", rep)
                    break
                got_ft = ir.fs.fs.fat_type
                want_ft = 32 if history.force_ft(meta) else (12 if spec.count < 4085 else 16 if spec.count < 65525 else 32)
                if got_ft != want_ft:
                    ctx.violation(f"{label}: {spec.count} clusters: mounted as FAT{got_ft}, the specification says FAT{want_ft}", f"fat-type:{got_ft}:{want_ft}", rep)
                    break
                try:
                    w = ir.walk()
                except Exception as e:  # noqa
                    ctx.violation(f"{label}: walking the foreign tree raised {type(e).__name__}: {e}", f"walk-raises:{type(e).__name__}", rep)
                    break
                d = history.diff_trees(w, exp, "pyfatfs", "the volume as built")
                if d:
                    ctx.violation(f"{label}: {d[0]}", "foreign-tree:" + ("extra" if "only in pyfatfs" in d[0] else "missing" if "only in the volume" in d[0] else "content"),
                                  dict(rep, diffs=d[:8]))
                    break
                if ir.dev.outside:
                    ctx.violation(f"{label}: access outside the volume while reading: {ir.dev.outside[0]}", "io-outside:read", rep)
                ir.op(["closefs"])
            else:
                ctx.nontrivial.add((label, i))
                # writing to the foreign volume keeps it sound (names with lead byte 0xE5 are the known finding D18: that entry is avoided by
                # working in a sub-directory)
                ops = [["makedir", "/SUBDIR/new dir"], ["open", "h", "/SUBDIR/new dir/file.bin", "w"], ["write", "h", (b"Z" * (spec.bpc * 2 + 1)).hex()],
                       ["hclose", "h"], ["remove", "/SUBDIR/FILL0000"], ["open", "g", "/SUBDIR/straddling long file name.bin", "a"],
                       ["write", "g", "414243"], ["hclose", "g"], ["closefs"]]
                case = history.Case(label, img, ops, mount=dict(encoding="ibm437"), meta=meta)
                history.run_case(ctx, case, oracles=("fsck", "interop", "internal", "io_bounds"), model=m)
            ctx.sample(dict(image=label, clusters=spec.count, fat_type=spec.ft, entries=len(exp)))
    finally:
        m.close()


def extra_search(ctx):
    run(ctx)
