"""Controlled scheduler for C18 / C19: real threads, one runnable at a time, pre-emption points at
every device access, every acquisition of the library's locks and (optionally) every source line
of pyfatfs.  A schedule is the list of thread ids chosen at the yield points; it is replayable."""
import sys
import threading
import warnings


class Deadlock(Exception):
    pass


class Sched:
    def __init__(self, n, policy):
        """policy(step, current, runnable list) -> thread id to run next"""
        self.n = n
        self.policy = policy
        self.go = [threading.Event() for _ in range(n)]
        self.done = [False] * n
        self.blocked_on = [None] * n
        self.current = None
        self.step = 0
        self.trace = []
        self.main = threading.Event()
        self.error = None
        self.switches = 0
        self.line_mode = False
        self.kinds = {}           # thread id -> distinct yield-point kinds in first-visit order (filled when record_kinds)
        self.record_kinds = False

    # -- called from worker threads
    def me(self):
        return getattr(threading.current_thread(), "sched_id", None)

    def runnable(self):
        return [i for i in range(self.n) if not self.done[i] and (self.blocked_on[i] is None or self.blocked_on[i].owner is None)]

    def yield_point(self, kind):
        tid = self.me()
        if tid is None or self.current != tid:
            return
        self.step += 1
        if self.record_kinds:
            k = self.kinds.setdefault(tid, {})
            if kind not in k:
                k[kind] = len(k)
        run = self.runnable()
        nxt = self.policy(self.step, tid, run, kind) if len(run) > 1 or tid not in run else tid
        if nxt not in run:
            nxt = tid if tid in run else (run[0] if run else None)
        if nxt is None:
            self.error = Deadlock(f"no runnable thread at step {self.step}")
            self.main.set()
            raise self.error
        if len(self.trace) < 20000:
            self.trace.append(nxt)
        if nxt != tid:
            self.switches += 1
            self.current = nxt
            self.go[tid].clear()
            self.go[nxt].set()
            self.go[tid].wait()

    def finish(self):
        tid = self.me()
        self.done[tid] = True
        run = self.runnable()
        if run:
            nxt = self.policy(self.step, None, run, "finish")
            if nxt not in run:
                nxt = run[0]
            self.current = nxt
            self.go[nxt].set()
        else:
            if not all(self.done):
                self.error = Deadlock("threads blocked forever")
            self.main.set()


class SLock:
    """replacement for threading.Lock / RLock objects inside pyfatfs: acquisition is a yield point and
    blocking hands the processor to another thread"""

    def __init__(self, sched, name, reentrant=False):
        self.s, self.name, self.owner, self.depth, self.reentrant = sched, name, None, 0, reentrant
        self.events = []

    def acquire(self, blocking=True, timeout=-1):
        s = self.s
        tid = s.me()
        if tid is None:
            self.owner = "main"
            return True
        s.yield_point("acquire:" + self.name)
        if self.reentrant and self.owner == tid:
            self.depth += 1
            return True
        while self.owner is not None:
            s.blocked_on[tid] = self
            s.yield_point("blocked:" + self.name)
        s.blocked_on[tid] = None
        self.owner = tid
        self.depth = 1
        return True

    def release(self):
        tid = self.s.me()
        if tid is None:
            self.owner = None
            return
        self.depth -= 1
        if self.depth <= 0:
            self.owner = None
        self.s.yield_point("release:" + self.name)

    __enter__ = acquire

    def __exit__(self, *a):
        self.release()

    def locked(self):
        return self.owner is not None


def hook_locks(obj, sched, names=None):
    """replace EVERY threading.Lock / RLock attribute of [obj] by a scheduler-aware lock, whatever it is called (C19-m7 renamed the filesystem
    lock: a harness that looks for one attribute name stops owning the lock, and stops checking its discipline).  -> {attribute: SLock}"""
    import threading
    kinds = {type(threading.Lock()): False, type(threading.RLock()): True}
    out = {}
    for k, v in list(vars(obj).items()):
        if type(v) in kinds:
            out[k] = SLock(sched, (names or {}).get(k, k), reentrant=kinds[type(v)])
            setattr(obj, k, out[k])
    return out


def run_threads(sched, fns, pyfat_dir=None, line_mode=False, timeout=60):
    """fns: list of callables (one per thread); returns list of results / exceptions"""
    results = [None] * len(fns)

    def tracer(frame, event, arg):
        if event == "line" and pyfat_dir and frame.f_code.co_filename.startswith(pyfat_dir):
            sched.yield_point(f"line:{frame.f_code.co_name}:{frame.f_lineno}")
        return tracer

    def glob(frame, event, arg):
        if pyfat_dir and frame.f_code.co_filename.startswith(pyfat_dir):
            return tracer
        return None

    def body(i):
        threading.current_thread().sched_id = i
        sched.go[i].wait()
        if line_mode:
            sys.settrace(glob)
        try:
            with warnings.catch_warnings():
                warnings.simplefilter("ignore")
                results[i] = ("ok", fns[i]())
        except Deadlock as e:
            results[i] = ("err", "DEADLOCK")
        except Exception as e:  # noqa
            from .core import classify_exc
            results[i] = ("err", classify_exc(e) + ":" + str(e)[:60] if classify_exc(e).startswith("INTERNAL") else classify_exc(e))
        finally:
            sys.settrace(None)
            sched.finish()
    ths = [threading.Thread(target=body, args=(i,), daemon=True) for i in range(len(fns))]
    for t in ths:
        t.start()
    first = sched.policy(0, None, list(range(len(fns))), "start")
    sched.current = first
    sched.go[first].set()
    ok = sched.main.wait(timeout)
    if not ok:
        sched.error = Deadlock("timeout: scheduler stalled")
        for i in range(len(fns)):
            sched.done[i] = True
            sched.go[i].set()
    return results


class SchedDevice:
    """wraps a TraceDevice: every seek/read/write is a yield point"""

    def __init__(self, dev, sched):
        self.d, self.s = dev, sched
        self.guard = None              # an SLock: every write of a scheduled thread is expected to happen while that thread owns it
        self.unguarded = []            # (thread, device position) of writes that did not

    def seek(self, *a):
        self.s.yield_point("seek")
        return self.d.seek(*a)

    def read(self, *a):
        self.s.yield_point("read")
        return self.d.read(*a)

    def write(self, data):
        self.s.yield_point("write")
        tid = self.s.me()
        if self.guard is not None and tid is not None and self.guard.owner != tid and len(self.unguarded) < 50:
            self.unguarded.append((tid, self.d.tell()))
        return self.d.write(data)

    def __getattr__(self, k):
        return getattr(self.d, k)


def preempt_policy(points):
    """run the current thread until it blocks or finishes, except at the given step numbers where the
    processor goes to the next runnable thread (points: {step: offset})"""
    def pol(step, cur, run, kind):
        if cur is None:
            return run[0] if kind != "start" else points.get(0, run[0]) if points.get(0, run[0]) in run else run[0]
        if cur not in run:
            return run[0]
        if step in points:
            others = [r for r in run if r != cur]
            if others:
                return others[points[step] % len(others)]
        return cur
    return pol


def kind_preempt_policy(thread, kind, first=0):
    """start with thread [first]; when [thread] reaches the yield point [kind] for the first time, run the other threads (each to completion
    or until it blocks) before it continues: one pre-emption at one source line"""
    state = {"fired": False}

    def pol(step, cur, run, k):
        if cur is None:
            return first if first in run else run[0]
        if cur not in run:
            return run[0]
        if not state["fired"] and cur == thread and k == kind:
            state["fired"] = True
            others = [r for r in run if r != cur]
            if others:
                return others[0]
        return cur
    return pol


def random_policy(rng, p=0.1):
    def pol(step, cur, run, kind):
        if cur is None or cur not in run or rng.random() < p:
            return rng.choice(run)
        return cur
    return pol
