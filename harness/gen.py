"""Generators: volumes (pyfatfs mkfs and the independent formatter), name pools, op programs.
Every random choice derives from one random.Random seeded from VERIF_SEED."""
import random

from . import core, fatspec

NAMES_83 = ["A.TXT", "A B.TXT", "MY DIR", "README", "DATA.BIN", "X", "FILE1.DAT", "FILE2.DAT", "ABCDEFGH.XYZ", "NO_EXT", "A1B2C3D4.E5"]
NAMES_LONG = ["hello world.txt", "MixedCase.Txt", "lower.txt", "file.name.with.dots", "a long file name that needs slots.data",
              "thirteen_char", "fourteen_chars", "x" * 26, "y" * 27, "with+plus,comma;semi=eq[br].t", "UPPER CASE.TXT",
              "longfilename1.txt", "longfilename2.txt", "longfilename3.txt", "longfilename4.txt", "trailing.dot.x",
              "z" * 100 + ".bin", "q" * 127, "w" * 128, "v" * 200, "u" * 255]
NAMES_UNI = ["abcdefghijk😀", "abcdefghijkl😀", "nOtes.txt", "Notes.txt", "Ünïcödé.dat", "naïve café.txt", "ÅÄÖ.TXT", "日本語.txt", "αβγδ.doc", "😀.bin", "mixé😀é.x", "Ж" * 14 + ".ю"]
DIRS = ["D", "SUB", "sub dir", "Nested Directory Name", "d2", "ÄÖ", "deep"]


def name_pool(rng, uni=True, big=True):
    pool = NAMES_83 + NAMES_LONG + (NAMES_UNI if uni else [])
    if not big:
        pool = [n for n in pool if len(n) <= 60]
    return pool


# ------------------------------------------------------------------------------------------
def volumes(tier="quick", high=False):
    """list of (label, thunk -> (image bytes, meta))"""
    v = []

    def mk(ft, size, **kw):
        def f():
            dev, pf = core.mkfs_image(ft, size, **kw)
            return dev.volume(), dict(source="mkfs", ft=ft, size=size, **{k: val for k, val in kw.items()})
        return f

    def bd(ft, **kw):
        def f():
            img, info = fatspec.build(ft, **kw)
            return img, dict(source="build", ft=ft, **{k: val for k, val in kw.items() if not callable(val)})
        return f
    v.append(("mkfs12-64k", mk(12, 64 * 1024)))
    v.append(("build12-spc2-nf1", bd(12, spc=2, nf=1, clusters=150, rootent=32)))
    v.append(("build12-bps1024-nf3", bd(12, bps=1024, nf=3, clusters=120, rootent=64)))
    v.append(("mkfs16-8500", mk(16, 8500 * 512)))
    v.append(("build32-tiny", bd(32, clusters=300, spc=1)))
    v.append(("build16-4100", bd(16, clusters=4100, spc=1, rootent=64)))
    if tier == "thorough" or high:
        v.append(("build32-high", bd(32, clusters=66000, spc=1, fatfill={c: 0x0FFFFFF7 for c in range(3, 0x10008)})))   # first free cluster > 0xFFFF
    v.append(("build12-full-fat", bd(12, clusters=339, rootent=16)))      # FAT exactly 1 sector, 341 entries
    v.append(("build12-fat2sec", bd(12, clusters=680, rootent=16)))       # 2-sector FAT (last-entry case)
    if tier == "thorough":
        v.append(("mkfs12-1M", mk(12, 1024 * 1024)))
        v.append(("mkfs12-4096", mk(12, 512 * 4096, sector_size=4096)))
        v.append(("mkfs16-nf1", mk(16, 9000 * 512, number_of_fats=1)))
        v.append(("build16-spc4", bd(16, clusters=4200, spc=4, rootent=512, nf=3)))
        v.append(("build32-real", bd(32, clusters=65600, spc=1)))
        v.append(("mkfs32", mk(32, 66700 * 512)))
        v.append(("build12-spc64", bd(12, clusters=40, spc=64, rootent=16)))
        v.append(("build32-tiny-spc8-bps2048", bd(32, clusters=120, spc=8, bps=2048)))
    return v


# ------------------------------------------------------------------------------------------
class Shadow:
    """what the generator believes exists, to produce mostly-valid programs"""

    def __init__(self):
        self.dirs = {"/"}
        self.files = {}

    def children(self, d):
        pre = d.rstrip("/") + "/"
        return [p for p in list(self.dirs) + list(self.files) if p != "/" and p.startswith(pre) and "/" not in p[len(pre):]]

    def join(self, d, n):
        return d.rstrip("/") + "/" + n


def namespace_program(rng, nops=40, pool=None, max_file=3000, handle_ops=True, depth=4, fill=False):
    """primitive-level program (every op is also executable by the model)"""
    pool = pool or name_pool(rng)
    sh = Shadow()
    ops = []
    hcount = 0
    for _ in range(nops):
        r = rng.random()
        d = rng.choice(sorted(sh.dirs))
        if r < 0.16 and d.count("/") < depth:
            n = rng.choice(DIRS + pool[:6])
            p = sh.join(d, n)
            ops.append(["makedir", p])
            if p not in sh.files and p not in sh.dirs:
                sh.dirs.add(p)
        elif r < 0.40:
            n = rng.choice(pool)
            p = sh.join(d, n)
            if p in sh.dirs:
                ops.append(["create", p])
                continue
            size = rng.choice([0, 1, 31, 511, 512, 513, 1023, 1024, 1025, 2048, rng.randrange(1, max_file)])
            hcount += 1
            h = f"h{hcount}"
            data = bytes(rng.randrange(256) for _ in range(size))
            ops.append(["open", h, p, rng.choice(["w", "w", "w+", "a"])])
            if size:
                cut = rng.randrange(0, size + 1)
                if cut and cut < size and rng.random() < 0.5:
                    ops.append(["write", h, data[:cut].hex()])
                    ops.append(["write", h, data[cut:].hex()])
                else:
                    ops.append(["write", h, data.hex()])
            ops.append(["hclose", h])
            sh.files[p] = size
        elif r < 0.50 and sh.files:
            p = rng.choice(sorted(sh.files))
            ops.append(["remove", p])
            del sh.files[p]
        elif r < 0.56:
            cands = [x for x in sh.dirs if x != "/"]
            if cands:
                p = rng.choice(sorted(cands))
                ops.append(["removedir", p])
                if not sh.children(p):
                    sh.dirs.discard(p)
        elif r < 0.60:
            cands = [x for x in sh.dirs if x != "/"]
            if cands:
                p = rng.choice(sorted(cands))
                ops.append(["removetree", p])
                for q in [x for x in list(sh.dirs) if x == p or x.startswith(p + "/")]:
                    sh.dirs.discard(q)
                for q in [x for x in list(sh.files) if x.startswith(p + "/")]:
                    del sh.files[q]
        elif r < 0.68:
            ops.append(["listdir", d])
        elif r < 0.74:
            cands = sorted(sh.files) + sorted(sh.dirs)
            ops.append([rng.choice(["exists", "getinfo", "isdir", "isfile", "getsize"]), rng.choice(cands + [sh.join(d, "nope.txt")])])
        elif r < 0.82 and sh.files and handle_ops:
            p = rng.choice(sorted(sh.files))
            hcount += 1
            h = f"h{hcount}"
            sz = sh.files[p]
            ops.append(["open", h, p, "r+"])
            new = rng.choice([0, max(0, sz - 1), sz // 2, sz + 1, sz + 600, 512, 1024, 1536])
            ops.append(["truncate", h, new])
            ops.append(["hclose", h])
            sh.files[p] = new
        elif r < 0.88 and sh.files and handle_ops:
            p = rng.choice(sorted(sh.files))
            hcount += 1
            h = f"h{hcount}"
            sz = sh.files[p]
            ops.append(["open", h, p, "r+"])
            off = rng.choice([0, sz, max(0, sz - 1), sz // 2, min(sz, 512), min(sz, 511)])
            ops.append(["seek", h, off, 0])
            n = rng.choice([1, 2, 511, 512, 513, 1100])
            ops.append(["write", h, bytes(rng.randrange(256) for _ in range(n)).hex()])
            ops.append(["seek", h, 0, 0])
            ops.append(["read", h, -1])
            ops.append(["hclose", h])
            sh.files[p] = max(sz, off + n)
        elif r < 0.90 and sh.files:
            p = rng.choice(sorted(sh.files))
            hcount += 1
            ops += [["open", f"h{hcount}", p, "w"], ["hclose", f"h{hcount}"], ["remove", p]]     # emptied (keeps one cluster), then removed
            del sh.files[p]
        elif r < 0.92 and sh.files:
            p = rng.choice(sorted(sh.files))
            ops.append(["create", p, rng.choice([0, 1])])
            if ops[-1][2]:
                sh.files[p] = 0
        elif r < 0.96:
            cands = sorted(sh.files) + sorted(x for x in sh.dirs if x != "/")
            if cands:
                base = 1704067200 + rng.randrange(0, 86400 * 300)
                tt = lambda ts: _utc_tuple(ts)  # noqa
                c, m, a = base, base + 3601, base + 86400 * 2
                ops.append(["setinfo", rng.choice(cands), c, m, a, tt(c), tt(m), tt(a)])
        else:
            ops.append(["makedir", sh.join(d, rng.choice(DIRS)), 1])
            p = ops[-1][1]
            if p not in sh.files:
                sh.dirs.add(p)
    return ops


def _utc_tuple(ts):
    import time
    t = time.gmtime(ts)
    return (t.tm_year, t.tm_mon, t.tm_mday, t.tm_hour, t.tm_min, t.tm_sec)


def fill_program(rng, chunk=None, names=None):
    """fill the volume until ENOSPC, delete some, refill"""
    ops = []
    names = names or [f"F{i:03d}.BIN" for i in range(400)]
    for i, n in enumerate(names):
        size = chunk or rng.choice([512, 1024, 1500, 2048, 4000])
        ops.append(["open", f"f{i}", "/" + n, "w"])
        ops.append(["write", f"f{i}", bytes([i & 0xFF]) * size])
        ops.append(["hclose", f"f{i}"])
    return ops


def handle_program(rng, bpc, nfiles=2, nops=40):
    """C02: open/seek/read/write/truncate/tell/close programs around cluster multiples"""
    ops = []
    files = [f"/F{i}.BIN" for i in range(nfiles)]
    sizes = {f: 0 for f in files}
    openh = {}
    hn = 0
    marks = sorted({0, 1, bpc - 1, bpc, bpc + 1, 2 * bpc - 1, 2 * bpc, 2 * bpc + 1, 3 * bpc, 3 * bpc + 7, bpc // 2})
    for f in files:
        hn += 1
        h = f"h{hn}"
        n = rng.choice(marks)
        ops += [["open", h, f, "w"], ["write", h, bytes(rng.randrange(1, 256) for _ in range(n)).hex()], ["hclose", h]]
        sizes[f] = n
    for _ in range(nops):
        r = rng.random()
        if (r < 0.2 or not openh) and len(openh) < 2:
            f = rng.choice([x for x in files if x not in openh.values()] or files)
            if f in openh.values():
                continue
            mode = rng.choice(["r", "r+", "r+", "w", "w+", "a", "a+"])
            hn += 1
            h = f"h{hn}"
            ops.append(["open", h, f, mode])
            openh[h] = f
            openh[h + ":mode"] = mode
            if "w" in mode:
                sizes[f] = 0
            continue
        hs = [k for k in openh if ":" not in k]
        if not hs:
            continue
        h = rng.choice(hs)
        f = openh[h]
        mode = openh[h + ":mode"]
        sz = sizes[f]
        if r < 0.35:
            off = min(rng.choice(marks + [sz, max(0, sz - 1)]), sz)     # never beyond end of file
            ops.append(["seek", h, off, 0])
        elif r < 0.42:
            ops.append(["seek", h, -min(sz, rng.choice([0, 1, bpc])), 2])
        elif r < 0.55:
            ops.append(["read", h, rng.choice([-1, 0, 1, bpc - 1, bpc, bpc + 1, 2 * bpc + 3])])
        elif r < 0.75 and mode != "r":
            n = rng.choice([1, 2, bpc - 1, bpc, bpc + 1, 2 * bpc, 2 * bpc + 5])
            ops.append(["write", h, bytes(rng.randrange(1, 256) for _ in range(n)).hex()])
            ops.append(["tell", h])
            sizes[f] = None     # unknown without simulating; resolved by the reference run
        elif r < 0.83 and mode != "r":
            ops.append(["truncate", h, rng.choice([None, 0, bpc, bpc - 1, 2 * bpc + 1, max(0, (sz or 0) - 1)])])
            sizes[f] = None
        elif r < 0.9:
            ops.append(["tell", h])
        else:
            ops.append(["hclose", h])
            del openh[h]
            del openh[h + ":mode"]
        if sizes[f] is None:
            sizes[f] = 3 * bpc   # upper estimate only used to pick seek targets; clipped by `no seek past EOF` filter at run time
    for h in [k for k in openh if ":" not in k]:
        ops.append(["hclose", h])
    return ops, files
