(* Line-protocol driver around the extracted model.  One command per line on stdin; for each
   command: zero or more "w <off> <len> <md5|hex>" lines (device writes the model performed),
   then exactly one line starting with "ok" or "err". *)
open Extracted

let rec pos_of_int n = if n = 1 then XH else if n land 1 = 0 then XO (pos_of_int (n lsr 1)) else XI (pos_of_int (n lsr 1))
let z_of_int n = if n = 0 then Z0 else if n > 0 then Zpos (pos_of_int n) else Zneg (pos_of_int (-n))
let rec int_of_pos = function XH -> 1 | XO p -> 2 * int_of_pos p | XI p -> 2 * int_of_pos p + 1
let int_of_z = function Z0 -> 0 | Zpos p -> int_of_pos p | Zneg p -> - (int_of_pos p)
let zi s = z_of_int (int_of_string s)
let bytez = Array.init 256 z_of_int
let hexv c = match c with '0'..'9' -> Char.code c - 48 | 'a'..'f' -> Char.code c - 87 | 'A'..'F' -> Char.code c - 55 | _ -> failwith "hex"
let bytes_of_hex s =
  if s = "." || s = "" then [] else
  let n = String.length s / 2 in
  let rec go i acc = if i < 0 then acc else go (i - 1) (bytez.(hexv s.[2*i] * 16 + hexv s.[2*i+1]) :: acc) in
  go (n - 1) []
let hex_of_bytes l =
  let b = Buffer.create 64 in
  List.iter (fun z -> Buffer.add_string b (Printf.sprintf "%02x" ((int_of_z z) land 255))) l;
  if Buffer.length b = 0 then "." else Buffer.contents b
let str_of_bytes l = let b = Buffer.create 64 in List.iter (fun z -> Buffer.add_char b (Char.chr ((int_of_z z) land 255))) l; Buffer.contents b
let units_of_hex s = (* utf-16-le bytes as hex -> code units *)
  let rec go = function lo :: hi :: r -> z_of_int (int_of_z lo + 256 * int_of_z hi) :: go r | _ -> [] in go (bytes_of_hex s)
let hex_of_units u = hex_of_bytes (List.concat_map (fun z -> let v = int_of_z z in [bytez.(v land 255); bytez.((v lsr 8) land 255)]) u)
let opt_hex s = if s = "-" then None else Some (bytes_of_hex s)
let err_name = function
  | RNF -> "RNF" | DEXP -> "DEXP" | FEXP -> "FEXP" | DEXISTS -> "DEXISTS" | FEXISTS -> "FEXISTS"
  | DNOTEMPTY -> "DNOTEMPTY" | RROOT -> "RROOT" | DESTEX -> "DESTEX" | ENOENT -> "ENOENT" | ENOTDIR -> "ENOTDIR"
  | ENOSPC -> "ENOSPC" | E2BIG -> "E2BIG" | EROFS -> "EROFS" | EINVAL -> "EINVAL" | ENAMETOOLONG -> "ENAMETOOLONG"
  | EEXIST -> "EEXIST" | EPYFAT -> "EPYFAT" | IOERR -> "IOERR" | VALERR -> "VALERR" | EFUEL -> "EFUEL" | EIO -> "EIO"

(* name record: U:O:P:B:E:C *)
let parse_name s =
  match String.split_on_char ':' s with
  | [u; o; p; b; e; c] -> { n_u = units_of_hex u; n_oem = opt_hex o; n_oem_up = opt_hex p; n_base = bytes_of_hex b;
                            n_ext = bytes_of_hex e; n_conform = (c = "1") }
  | _ -> failwith ("bad name " ^ s)
let parse_path s = if s = "ROOT" then [] else List.map parse_name (String.split_on_char '/' s)
let parse_now s = match List.map zi (String.split_on_char '.' s) with
  | [y; m; d; h; mi; sec] -> (((((y, m), d), h), mi), sec) | _ -> failwith "bad now"
let opt_now s = if s = "-" then None else Some (parse_now s)
let shown_str = function NLong u -> "L" ^ hex_of_units u | NShort b -> "S" ^ hex_of_bytes b
let b01 b = if b then "1" else "0"
let list_str l = String.concat "," (List.map (fun z -> string_of_int (int_of_z z)) l)

(* state *)
let dev0 : dev ref = ref PositiveMap.empty
let dsize = ref 0
let state : st option ref = ref None
let handles : (int, handle) Hashtbl.t = Hashtbl.create 8
let now = ref (parse_now "1980.1.1.0.0.0")
let hexlog = ref false
let logged = ref 0

let load_image path size =
  let ic = open_in_bin path in
  let len = in_channel_length ic in
  let buf = Bytes.create 512 in
  let d = ref PositiveMap.empty in
  let k = ref 0 in
  (try
    while !k * 512 < len do
      let n = min 512 (len - !k * 512) in
      really_input ic buf 0 n;
      if n < 512 then Bytes.fill buf n (512 - n) '\000';
      let nz = ref false in
      for i = 0 to 511 do if Bytes.get buf i <> '\000' then nz := true done;
      if !nz then begin
        let l = ref [] in
        for i = 511 downto 0 do l := bytez.(Char.code (Bytes.get buf i)) :: !l done;
        d := dput !d (z_of_int !k) !l
      end;
      incr k
    done with End_of_file -> ());
  close_in ic;
  dev0 := !d; dsize := (if size < 0 then len else size)

let emit_log (s : st) =
  let l = List.rev (s_log s) in
  let n = List.length l in
  let rec drop k l = if k = 0 then l else match l with _ :: r -> drop (k - 1) r | [] -> [] in
  List.iter (fun (off, data) ->
    let len = List.length data in
    if !hexlog || len <= 64 then Printf.printf "w %d %d %s\n" (int_of_z off) len (hex_of_bytes data)
    else Printf.printf "w %d %d md5:%s\n" (int_of_z off) len (Digest.to_hex (Digest.string (str_of_bytes data))))
    (drop !logged l);
  logged := n

let st () = match !state with Some s -> s | None -> failwith "not mounted"
let set s = state := Some s; emit_log s
let fail e = Printf.printf "err %s\n" (err_name e)
let hget id = try Hashtbl.find handles id with Not_found -> failwith "no such handle"

let dump_dev path =
  let s = st () in
  let oc = open_out_bin path in
  let zero = String.make 512 '\000' in
  let nblk = (!dsize + 511) / 512 in
  for k = 0 to nblk - 1 do
    let b = match PositiveMap.find (pos_of_int (k + 1)) (s_dev s) with
      | Some l -> str_of_bytes l | None -> zero in
    let n = min 512 (!dsize - k * 512) in
    output_string oc (String.sub b 0 n)
  done;
  close_out oc

let mode_of s = { m_reading = s.[0] = '1'; m_writing = s.[1] = '1'; m_appending = s.[2] = '1'; m_create = s.[3] = '1';
                  m_exclusive = s.[4] = '1'; m_truncate = s.[5] = '1' }

let hdr_of_hex h = parse_hdr (bytes_of_hex h)
let rec nat_of_int n = if n <= 0 then O else S (nat_of_int (n - 1))

let handle_cmd (w : string list) =
  match w with
  | ["hexlog"; v] -> hexlog := (v = "1"); print_string "ok\n"
  | ["load"; path; size] -> load_image path (int_of_string size); state := None; Hashtbl.reset handles; logged := 0; print_string "ok\n"
  | ["mount"; ro; pc] ->
      (match mount !dev0 (z_of_int !dsize) (ro = "1") (pc = "1") with
       | Ok (s, dirty) -> logged := 0; set s;
           Printf.printf "ok dirty=%s ft=%d maxc=%d nfat=%d\n" (b01 dirty) (int_of_z (s_p s).fat_type) (int_of_z (max_cluster s)) (List.length (s_fat s))
       | Err e -> fail e)
  | ["now"; t] -> now := parse_now t; print_string "ok\n"
  | ["exists"; p] -> (match op_exists (st ()) (parse_path p) with Ok b -> Printf.printf "ok %s\n" (b01 b) | Err e -> fail e)
  | ["getinfo"; p] ->
      (match op_getinfo (st ()) (parse_path p) with
       | Ok i -> Printf.printf "ok %s %s %d %d %d %d %d %d\n" (shown_str i.i_name) (b01 i.i_dir) (int_of_z i.i_size)
                   (int_of_z i.i_crtdate) (int_of_z i.i_crttime) (int_of_z i.i_wrtdate) (int_of_z i.i_wrttime) (int_of_z i.i_accdate)
       | Err e -> fail e)
  | ["getsize"; p] -> (match op_getsize (st ()) (parse_path p) with Ok n -> Printf.printf "ok %d\n" (int_of_z n) | Err e -> fail e)
  | ["listdir"; p] ->
      (match op_listdir (st ()) (parse_path p) with
       | Ok l -> Printf.printf "ok %s\n" (String.concat "|" (List.map shown_str l)) | Err e -> fail e)
  | ["create"; p; wipe] ->
      (match op_create (st ()) (parse_path p) (wipe = "1") !now with
       | Ok (b, s) -> set s; Printf.printf "ok %s\n" (b01 b) | Err e -> fail e)
  | ["makedir"; p; rc] -> (match op_makedir (st ()) (parse_path p) (rc = "1") !now with Ok s -> set s; print_string "ok\n" | Err e -> fail e)
  | ["remove"; p] -> (match op_remove (st ()) (parse_path p) with Ok s -> set s; print_string "ok\n" | Err e -> fail e)
  | ["removedir"; p] -> (match op_removedir (st ()) (parse_path p) with Ok s -> set s; print_string "ok\n" | Err e -> fail e)
  | ["removetree"; p] -> (match op_removetree (st ()) (parse_path p) with Ok s -> set s; print_string "ok\n" | Err e -> fail e)
  | ["setinfo"; p; c; m; a] ->
      (match op_setinfo (st ()) (parse_path p) (opt_now c) (opt_now m) (opt_now a) with Ok s -> set s; print_string "ok\n" | Err e -> fail e)
  | ["open"; id; p; m] ->
      (match op_openbin (st ()) (parse_path p) (mode_of m) !now with
       | Ok (s, h) -> Hashtbl.replace handles (int_of_string id) h; set s; print_string "ok\n" | Err e -> fail e)
  | ["read"; id; n] ->
      let id = int_of_string id in
      (match h_read (st ()) (hget id) (zi n) with
       | Ok (data, h) -> Hashtbl.replace handles id h; Printf.printf "ok %s\n" (hex_of_bytes data) | Err e -> fail e)
  | ["write"; id; hx] ->
      let id = int_of_string id in
      let data = bytes_of_hex hx in
      (match h_write (st ()) (hget id) data with
       | Ok (s, h) -> Hashtbl.replace handles id h; set s; Printf.printf "ok %d\n" (List.length data) | Err e -> fail e)
  | ["seek"; id; off; wh] ->
      let id = int_of_string id in
      let s = st () in let h = hget id in
      (match find_in_dir s h with
       | Err e -> fail e
       | Ok e -> (match h_seek s h e (zi off) (zi wh) with
                  | Ok h' -> Hashtbl.replace handles id h'; Printf.printf "ok %d\n" (int_of_z h'.h_bpos) | Err e -> fail e))
  | ["truncate"; id; sz] ->
      let id = int_of_string id in
      let size = if sz = "-" then None else Some (zi sz) in
      (match h_truncate (st ()) (hget id) size with
       | Ok (s, h) -> Hashtbl.replace handles id h; set s;
           Printf.printf "ok %d\n" (match size with Some n -> int_of_z n | None -> int_of_z h.h_bpos)
       | Err e -> fail e)
  | ["hclose"; id] ->
      let id = int_of_string id in
      (match h_close (st ()) (hget id) with
       | Ok (s, h) -> Hashtbl.replace handles id h; set s; print_string "ok\n" | Err e -> fail e)
  | ["closefs"] -> (match op_close (st ()) with Ok s -> set s; print_string "ok\n" | Err e -> fail e)
  | ["dump"; path] -> dump_dev path; print_string "ok\n"
  | ["fat"] -> let s = st () in Printf.printf "ok hint=%d %s\n" (int_of_z (s_hint s)) (list_str (s_fat s))
  | ["fatsig"] -> let s = st () in Printf.printf "ok %d %d %s\n" (int_of_z (s_hint s)) (List.length (s_fat s)) (Digest.to_hex (Digest.string (list_str (s_fat s))))
  (* ---- function level ---- *)
  | ["f.ser_date"; y; m; d] -> Printf.printf "ok %d\n" (int_of_z (Gen.serialize_date (zi y) (zi m) (zi d)))
  | ["f.ser_time"; h; m; s] -> Printf.printf "ok %d\n" (int_of_z (Gen.serialize_time (zi h) (zi m) (zi s)))
  | ["f.deser_date"; w] -> let ((y, m), d) = Gen.deserialize_date (zi w) in Printf.printf "ok %d %d %d\n" (int_of_z y) (int_of_z m) (int_of_z d)
  | ["f.deser_time"; w] -> let ((h, m), s) = Gen.deserialize_time (zi w) in Printf.printf "ok %d %d %d\n" (int_of_z h) (int_of_z m) (int_of_z s)
  | ["f.sweep_dates"] ->
      let b = Buffer.create (1 lsl 20) in
      for w = 0 to 65535 do
        let ((y, m), d) = Gen.deserialize_date (z_of_int w) in
        let ((h, mi), s) = Gen.deserialize_time (z_of_int w) in
        Buffer.add_string b (Printf.sprintf "%d.%d.%d.%d.%d.%d." (int_of_z y) (int_of_z m) (int_of_z d) (int_of_z h) (int_of_z mi) (int_of_z s))
      done;
      Printf.printf "ok %s\n" (Digest.to_hex (Digest.string (Buffer.contents b)))
  | ["f.checksum"; hx] -> Printf.printf "ok %d\n" (int_of_z (Gen.checksum (bytes_of_hex hx)))
  | ["f.parse_fat"; t; hx] -> Printf.printf "ok %s\n" (list_str (parse_fat (zi t) (bytes_of_hex hx)))
  | ["f.pack_parse_fat"; t; hx] ->
      let bs = bytes_of_hex hx in
      let t = zi t in
      Printf.printf "ok %s\n" (hex_of_bytes (pack_fat t (parse_fat t bs) (parse32hi bs)))
  | ["f.geom"; hx] ->
      let boot = bytes_of_hex hx in
      let h = parse_hdr boot in
      (match Gen.verify_bpb_header h with
       | Err e -> fail e
       | Ok () -> let p = Gen.parse_header_geometry pf_init h in
           Printf.printf "ok ft=%d fatsz=%d rds=%d rdsec=%d fds=%d tot=%d\n" (int_of_z p.fat_type) (int_of_z p._fat_size)
             (int_of_z p.root_dir_sectors) (int_of_z p.root_dir_sector) (int_of_z p.first_data_sector) (int_of_z (Gen.get_total_sectors h)))
  | ["f.hdr_roundtrip"; hx] -> Printf.printf "ok %s\n" (hex_of_bytes (ser_hdr (hdr_of_hex hx)))
  | ["f.mkfs_geom"; t; size; ss; nf] ->
      (match Gen.mkfs_geometry pf_init (zi t) (zi size) (zi ss) (zi nf) with
       | Err e -> fail e
       | Ok ((((((((p, num_sec), spc), rootent), rsvd), f16), f32), t16), t32) ->
      Printf.printf "ok num_sec=%d spc=%d rootent=%d rsvd=%d fatsz=%d rds=%d f16=%d f32=%d t16=%d t32=%d\n" (int_of_z num_sec) (int_of_z spc)
        (int_of_z rootent) (int_of_z rsvd) (int_of_z p._fat_size) (int_of_z p.root_dir_sectors) (int_of_z f16) (int_of_z f32) (int_of_z t16) (int_of_z t32))
  | ["f.mkfs_sweep"; t; ss; nf; lo; hi; step] ->
      (* search the generated mkfs arithmetic for a sector count whose geometry violates the specification *)
      let ti = int_of_string t and ssi = int_of_string ss and nfi = int_of_string nf in
      let bad = ref None and n = ref (int_of_string lo) and checked = ref 0 and okc = ref 0 in
      while !bad = None && !n <= int_of_string hi do
        (match Gen.mkfs_geometry pf_init (zi t) (z_of_int (!n * ssi)) (zi ss) (zi nf) with
         | Err _ -> ()
         | Ok ((((((((p, num_sec), spc), rootent), rsvd), f16), f32), t16), t32) ->
             incr okc;
             let ns = int_of_z num_sec and spc = int_of_z spc and fsz = int_of_z p._fat_size and rds = int_of_z p.root_dir_sectors and rsvd = int_of_z rsvd in
             let count = (ns - (rsvd + rds + nfi * fsz)) / spc in
             let cap = fsz * ssi * 8 / ti in
             let type_ok = (ti = 12 && count < 4085) || (ti = 16 && count >= 4085 && count < 65525) || (ti = 32 && count >= 65525) in
             if cap < count + 2 || not type_ok || count < 1 || (ti <> 32 && fsz > 65535) then bad := Some (!n, count, cap, fsz, spc));
        incr checked; n := !n + int_of_string step
      done;
      (match !bad with
       | None -> Printf.printf "ok none checked=%d accepted=%d\n" !checked !okc
       | Some (n, count, cap, fsz, spc) -> Printf.printf "ok bad sectors=%d count=%d fat_capacity=%d fatsz=%d spc=%d checked=%d\n" n count cap fsz spc !checked)
  | ["f.seek_cursor"; o; fs; b] -> let ((bp, ci), co) = Gen.seek_cursor (zi o) (zi fs) (zi b) in Printf.printf "ok %d %d %d\n" (int_of_z bp) (int_of_z ci) (int_of_z co)
  | ["f.make_lfn"; u; sfn] ->
      let sl = make_lfn (units_of_hex u) (bytes_of_hex sfn) in
      Printf.printf "ok %s %s\n" (hex_of_bytes (List.concat_map ser_lfnslot (List.rev sl))) (hex_of_units (lfn_units sl))
  | ["f.sfn_pack"; b; e] -> let n = sfn_pack (bytes_of_hex b) (bytes_of_hex e) in Printf.printf "ok %s %s\n" (hex_of_bytes n) (hex_of_bytes (sfn_display n))
  | ["f.scan"; hx] ->
      let b = bytes_of_hex hx in
      (match scan_slots (S (nat_of_int (List.length b / 32))) b [] [] with
       | Ok ((es, _), stop) -> Printf.printf "ok %s %s\n" (b01 stop) (String.concat "|" (List.map (fun e -> shown_str (shown_name e) ^ ";" ^ hex_of_bytes e.d_name ^ ";" ^ string_of_int (int_of_z e.d_size)) es))
       | Err e -> fail e)
  | ["f.alias"; n; taken] ->
      (* taken: '|'-separated 11-byte stored names as hex *)
      let mk nm = { d_name = bytes_of_hex nm; d_attr = z_of_int 32; d_ntres = Z0; d_tenth = Z0; d_crttime = Z0; d_crtdate = Z0; d_accdate = Z0;
                    d_clushi = Z0; d_wrttime = Z0; d_wrtdate = Z0; d_cluslo = Z0; d_size = Z0; d_lfn = None } in
      let es = if taken = "." then [] else List.map mk (String.split_on_char '|' taken) in
      (match make_8dot3 (parse_name n) es with
       | Ok (b, e) -> Printf.printf "ok %s %s\n" (hex_of_bytes b) (hex_of_bytes e) | Err e -> fail e)
  | [] -> ()
  | c :: _ -> Printf.printf "err UNKNOWN_COMMAND %s\n" c

let () =
  try
    while true do
      let line = input_line stdin in
      let w = List.filter (fun s -> s <> "") (String.split_on_char ' ' (String.trim line)) in
      (try handle_cmd w with Failure m -> Printf.printf "err DRIVER %s\n" m | Stack_overflow -> print_string "err DRIVER stack\n");
      flush stdout
    done
  with End_of_file -> ()
