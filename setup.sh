#!/bin/sh
# Build everything from files on disk: regenerate Gen from /repo, compile the whole Coq development (full .vo),
# extract the model, build the OCaml driver.
set -e
cd "$(dirname "$0")"
/venv/bin/python - <<'PY'
import sys
sys.path.insert(0, ".")
from harness import framework as fw
b = fw.Build()
fw.build_model(b)
if not b.model_ok:
    print(b.model_msg)
    sys.exit(1)
PY
cd coq && timeout 3000 make -j16 > /dev/null
echo "setup ok"
